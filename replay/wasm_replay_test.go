//go:build verif && tinywasm

package gtree

// Replay harness for the tinywasm variant (injected with `go test -overlay`, run in file-list mode because the
// repository's external test packages do not build with that tag). The wasm Output is compared, on enumerated small
// documents, with an independent model of the forest a document denotes and of the drawing rule (the same model the
// default build's harness uses), for text with default and custom branch strings, for JSON, and for the accept/reject
// decision. It decides nothing; a REPLAY-FAIL line gives a failing input for a violated obligation of the wasm variant.

import (
	"bytes"
	"encoding/json"
	"strings"
	"testing"
)

type wreplayLine struct {
	depth int
	name  string
}

func wreplayDocs(maxLines int, f func(lines []wreplayLine)) {
	var rec func(cur []wreplayLine)
	rec = func(cur []wreplayLine) {
		f(cur)
		if len(cur) == maxLines {
			return
		}
		for d := 0; d <= 3; d++ {
			for _, n := range []string{"a", "b"} {
				rec(append(append([]wreplayLine(nil), cur...), wreplayLine{d, n}))
			}
		}
	}
	for _, n := range []string{"a", "b"} {
		rec([]wreplayLine{{0, n}})
	}
}

type wreplayNode struct {
	name string
	kids []*wreplayNode
}

func wreplayModel(lines []wreplayLine) ([]*wreplayNode, bool) {
	var roots []*wreplayNode
	var path []*wreplayNode
	for _, l := range lines {
		if l.depth == 0 {
			n := &wreplayNode{name: l.name}
			roots = append(roots, n)
			path = []*wreplayNode{n}
			continue
		}
		if l.depth > len(path) {
			return nil, false
		}
		p := path[l.depth-1]
		var c *wreplayNode
		for _, k := range p.kids {
			if k.name == l.name {
				c = k
			}
		}
		if c == nil {
			c = &wreplayNode{name: l.name}
			p.kids = append(p.kids, c)
		}
		path = append(path[:l.depth], c)
	}
	return roots, true
}

func wreplayRender(n *wreplayNode, prefix string, isRoot, isLast bool, f [4]string, sb *strings.Builder) {
	if isRoot {
		sb.WriteString(n.name + "\n")
	} else {
		conn := f[2]
		if isLast {
			conn = f[0]
		}
		sb.WriteString(prefix + conn + " " + n.name + "\n")
	}
	for i, k := range n.kids {
		np := prefix
		if !isRoot {
			if isLast {
				np += f[1]
			} else {
				np += f[3]
			}
		}
		wreplayRender(k, np, false, i == len(n.kids)-1, f, sb)
	}
}

type wreplayJSON struct {
	Value    string         `json:"value"`
	Children []*wreplayJSON `json:"children"`
}

func wreplayJSONEq(j *wreplayJSON, n *wreplayNode) bool {
	if j == nil || j.Value != n.name || len(j.Children) != len(n.kids) {
		return false
	}
	for i := range n.kids {
		if !wreplayJSONEq(j.Children[i], n.kids[i]) {
			return false
		}
	}
	return true
}

// TestReplay_Wasm: text (default and custom branch strings), JSON and the accept/reject decision of the wasm Output.
func TestReplay_Wasm(t *testing.T) {
	formats := [][4]string{{"└──", "    ", "├──", "│   "}, {"+", "  ", "|", "| "}, {"", "", "", ""}, {"", "  ", "", "| "}}
	n := 0
	wreplayDocs(4, func(lines []wreplayLine) {
		// the indentation unit is learnt from the first indented row: only documents whose first indented row has depth 1
		// have the intended reading
		for _, l := range lines {
			if l.depth > 0 {
				if l.depth != 1 {
					return
				}
				break
			}
		}
		var doc strings.Builder
		for i, l := range lines {
			doc.WriteString(strings.Repeat("  ", l.depth))
			doc.WriteByte("-*+"[i%3])
			doc.WriteString(" " + l.name + "\n")
			if i == 0 && len(lines) > 2 {
				doc.WriteString("\n") // a blank line inside the first block
			}
		}
		roots, ok := wreplayModel(lines)
		for fi, f := range formats {
			var out bytes.Buffer
			opts := []Option{}
			if fi > 0 {
				opts = append(opts, WithBranchFormatLastNode(f[0], f[1]), WithBranchFormatIntermedialNode(f[2], f[3]))
			}
			err := Output(&out, strings.NewReader(doc.String()), opts...)
			n++
			if (err == nil) != ok {
				t.Fatalf("REPLAY-FAIL gtree.rootGenerator.generate/post#lines input: document %q: wasm Output returned %v, the document is well-formed: %v", doc.String(), err, ok)
			}
			if !ok {
				continue
			}
			var want strings.Builder
			for _, r := range roots {
				wreplayRender(r, "", true, true, f, &want)
			}
			if out.String() != want.String() {
				t.Fatalf("REPLAY-FAIL gtree.defaultGrower.assembleBranch/post#baked input: document %q, branch strings %q: wasm Output printed %q, the drawing rule gives %q", doc.String(), f, out.String(), want.String())
			}
		}
		if !ok {
			return
		}
		var out bytes.Buffer
		if err := Output(&out, strings.NewReader(doc.String()), WithEncodeJSON()); err != nil {
			t.Fatalf("REPLAY-FAIL gtree.jsonSpreader.spread/post#trace input: document %q with WithEncodeJSON: %v", doc.String(), err)
		}
		dec := json.NewDecoder(&out)
		for _, r := range roots {
			var j wreplayJSON
			if err := dec.Decode(&j); err != nil || !wreplayJSONEq(&j, r) {
				t.Fatalf("REPLAY-FAIL gtree.Node.toJSONNode/post#level input: document %q with WithEncodeJSON: record for root %q does not mirror the tree (decode error: %v)", doc.String(), r.name, err)
			}
		}
	})
	// names are printed as written (no format verbs interpreted)
	for _, name := range []string{"100%", "%d files", "a%20b"} {
		var out bytes.Buffer
		doc := "- r\n  - " + name + "\n"
		if err := Output(&out, strings.NewReader(doc)); err != nil || out.String() != "r\n└── "+name+"\n" {
			t.Fatalf("REPLAY-FAIL gtree.defaultSpreader.write/post#ok input: document %q: err=%v, printed %q", doc, err, out.String())
		}
	}
	// a line the parser rejects is an error, not a skipped line
	for _, doc := range []string{"- a\n  b\n", "- a\n  - b\n   - c\n"} {
		if err := Output(&bytes.Buffer{}, strings.NewReader(doc)); err == nil {
			t.Fatalf("REPLAY-FAIL gtree.rootGenerator.generate/loop#1/inv-keep#count input: document %q with a malformed line: wasm Output returned nil", doc)
		}
	}
	// dry run validates every name, the root's included
	for _, doc := range []string{"- a/b\n  - c\n", "- a\n  - ..\n", "- ..\n"} {
		if err := Output(&bytes.Buffer{}, strings.NewReader(doc), WithDryRun()); err == nil {
			t.Fatalf("REPLAY-FAIL gtree.defaultGrower.assembleBranch/post#valid input: document %q with WithDryRun: an invalid name was accepted", doc)
		}
	}
	t.Logf("REPLAY-OK wasm: %d runs", n)
}
