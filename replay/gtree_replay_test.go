//go:build verif && !tinywasm

package gtree

// Replay / cross-check harness for package gtree (injected with `go test -overlay`; never written into /repo).
// Run-time evaluation of the contracts of /repo/verif_contracts.go with the same executable spec functions,
// over enumerated small inputs. It decides nothing (see markdown_replay_test.go).

import (
	"bytes"
	"context"
	"errors"
	"fmt"
	"os"
	"path/filepath"
	"sort"
	"strings"
	"testing"

	"github.com/fatih/color"
)

// ---------- enumerated programmatic trees ----------

// replayShapes enumerates parent vectors of ordered trees with 1..maxN nodes (node i>0 has parent p[i] < i,
// children in creation order) and names from a small alphabet (siblings keep distinct names, as Add guarantees).
func replayTrees(maxN int, names []string, f func(root *Node, all []*Node, desc string)) {
	var rec func(parents []int, nm []string)
	rec = func(parents []int, nm []string) {
		// build
		root := NewRoot(nm[0])
		all := []*Node{root}
		ok := true
		for i := 1; i < len(parents); i++ {
			p := all[parents[i]]
			if p.findChildByText(nm[i]) != nil {
				ok = false
				break
			}
			all = append(all, p.Add(nm[i]))
		}
		if ok {
			f(root, all, fmt.Sprintf("parents=%v names=%v", parents, nm))
		}
		if len(parents) == maxN {
			return
		}
		for p := 0; p < len(parents); p++ {
			for _, n := range names {
				rec(append(append([]int(nil), parents...), p), append(append([]string(nil), nm...), n))
			}
		}
	}
	for _, n := range names {
		rec([]int{-1}, []string{n})
	}
}

var replayFormats = [][4]string{
	{"└──", "    ", "├──", "│   "},
	{"+", "  ", "|", "| "},
	{"", "", "", ""},
	{"あ", "い", "うう", "え"},
}

// TestReplay_Grower: assembleBranch / assemble / grow against specBranch; isLastOfHierarchy against specIsLast.
func TestReplay_Grower(t *testing.T) {
	n := 0
	replayTrees(5, []string{"a", "b"}, func(root *Node, all []*Node, desc string) {
		for _, f := range replayFormats {
			last, mid := branchFormat{f[0], f[1]}, branchFormat{f[2], f[3]}
			dg := &defaultGrowerSimple{lastNodeFormat: last, intermedialNodeFormat: mid}
			if err := dg.grow([]*Node{root}); err != nil {
				t.Fatalf("REPLAY-FAIL gtree.defaultGrowerSimple.grow/post#noval input: %s formats=%q: error %v", desc, f, err)
			}
			for _, nd := range all {
				n++
				if nd.isLastOfHierarchy() != specIsLast(nd) {
					t.Fatalf("REPLAY-FAIL gtree.Node.isLastOfHierarchy/post#islast input: %s node=%q", desc, nd.name)
				}
				if nd.brnch.value != specBranch(last, mid, nd) {
					t.Fatalf("REPLAY-FAIL gtree.defaultGrowerSimple.assembleBranch/post#branch input: %s formats=%q node=%q (hierarchy %d): branch %q, rule says %q",
						desc, f, nd.name, nd.hierarchy, nd.brnch.value, specBranch(last, mid, nd))
				}
				if nd.path() != specPath(nd) {
					t.Fatalf("REPLAY-FAIL gtree.defaultGrowerSimple.assembleBranch/post#path input: %s node=%q: path %q, want %q", desc, nd.name, nd.path(), specPath(nd))
				}
			}
		}
	})
	t.Logf("REPLAY-OK grower: %d (tree, format, node) cases", n)
}

// TestReplay_FromRoot: OutputFromRoot / WalkFromRoot against specRender / specPreorder / specLine, repetition, history independence.
func TestReplay_FromRoot(t *testing.T) {
	n := 0
	replayTrees(5, []string{"a", "b"}, func(root *Node, all []*Node, desc string) {
		for _, f := range replayFormats {
			n++
			last, mid := branchFormat{f[0], f[1]}, branchFormat{f[2], f[3]}
			opts := []Option{WithBranchFormatLastNode(f[0], f[1]), WithBranchFormatIntermedialNode(f[2], f[3])}
			want := specRender(last, mid, root)
			for rep := 0; rep < 2; rep++ {
				var buf bytes.Buffer
				if err := OutputFromRoot(&buf, root, opts...); err != nil || buf.String() != want {
					t.Fatalf("REPLAY-FAIL gtree.OutputFromRoot/post#render input: %s formats=%q repetition=%d: err=%v\ngot:\n%swant:\n%s", desc, f, rep, err, buf.String(), want)
				}
			}
			var seen []*Node
			err := WalkFromRoot(root, func(wn *WalkerNode) error {
				seen = append(seen, wn.origin)
				line := specLine(last, mid, wn.origin)
				if wn.Row()+"\n" != line || wn.Level() != wn.origin.hierarchy || wn.Name() != wn.origin.name || wn.HasChild() != (len(wn.origin.children) > 0) || wn.Path() != specPath(wn.origin) {
					t.Fatalf("REPLAY-FAIL gtree.WalkFromRoot/post#walk input: %s formats=%q node=%q: Row=%q Level=%d Path=%q", desc, f, wn.Name(), wn.Row(), wn.Level(), wn.Path())
				}
				return nil
			}, opts...)
			pre := specPreorder(root)
			if err != nil || len(seen) != len(pre) {
				t.Fatalf("REPLAY-FAIL gtree.WalkFromRoot/post#walk input: %s: err=%v visited %d of %d", desc, err, len(seen), len(pre))
			}
			for i := range pre {
				if seen[i] != pre[i] {
					t.Fatalf("REPLAY-FAIL gtree.defaultWalkerSimple.walkNode/post#all input: %s: visit %d is %q, pre-order says %q", desc, i, seen[i].name, pre[i].name)
				}
			}
			// the callback's first error stops the walk and is returned unchanged
			for stopAt := 0; stopAt < len(pre); stopAt++ {
				boom := errors.New("boom")
				calls := 0
				err := WalkFromRoot(root, func(wn *WalkerNode) error {
					calls++
					if calls-1 == stopAt {
						return boom
					}
					return nil
				}, opts...)
				if err != boom || calls != stopAt+1 {
					t.Fatalf("REPLAY-FAIL gtree.defaultWalkerSimple.walkNode/post#stop input: %s stopAt=%d: err=%v calls=%d", desc, stopAt, err, calls)
				}
			}
		}
		// Add returns the existing child
		for _, nd := range all {
			for _, c := range nd.children {
				if nd.Add(c.name) != c {
					t.Fatalf("REPLAY-FAIL gtree.Node.Add/post#dedupe input: %s parent=%q name=%q", desc, nd.name, c.name)
				}
			}
		}
	})
	if err := OutputFromRoot(&bytes.Buffer{}, nil); err != ErrNilNode {
		t.Fatalf("REPLAY-FAIL gtree.OutputFromRoot/post#nilnode input: nil root: %v", err)
	}
	r := NewRoot("r")
	if err := OutputFromRoot(&bytes.Buffer{}, r.Add("c")); err != ErrNotRoot {
		t.Fatalf("REPLAY-FAIL gtree.OutputFromRoot/post#notroot input: child node: %v", err)
	}
	t.Logf("REPLAY-OK from-root: %d (tree, format) cases", n)
}

// ---------- enumerated documents ----------

type replayLine struct {
	depth int
	name  string
}

// replayDocs enumerates documents of up to maxLines items over depths 0..3 and two names; the first line is a root.
func replayDocs(maxLines int, f func(lines []replayLine)) {
	var rec func(cur []replayLine)
	rec = func(cur []replayLine) {
		f(cur)
		if len(cur) == maxLines {
			return
		}
		for d := 0; d <= 3; d++ {
			for _, n := range []string{"a", "b"} {
				rec(append(append([]replayLine(nil), cur...), replayLine{d, n}))
			}
		}
	}
	for _, n := range []string{"a", "b"} {
		rec([]replayLine{{0, n}})
	}
}

func replaySpell(lines []replayLine, indent string, bullets string) string {
	var sb strings.Builder
	for i, l := range lines {
		sb.WriteString(strings.Repeat(indent, l.depth))
		sb.WriteByte(bullets[i%len(bullets)])
		sb.WriteString(" " + l.name + "\n")
	}
	return sb.String()
}

// replayModel is an independent reference for the forest a document denotes: nesting by depth, equally named
// siblings merged, a jump of more than one level is malformed.
type replayModelNode struct {
	name string
	kids []*replayModelNode
}

func replayModel(lines []replayLine) ([]*replayModelNode, bool) {
	var roots []*replayModelNode
	var path []*replayModelNode
	for _, l := range lines {
		if l.depth == 0 {
			n := &replayModelNode{name: l.name}
			roots = append(roots, n)
			path = []*replayModelNode{n}
			continue
		}
		if l.depth > len(path) {
			return nil, false
		}
		p := path[l.depth-1]
		var c *replayModelNode
		for _, k := range p.kids {
			if k.name == l.name {
				c = k
			}
		}
		if c == nil {
			c = &replayModelNode{name: l.name}
			p.kids = append(p.kids, c)
		}
		path = append(path[:l.depth], c)
	}
	return roots, true
}

func replayModelRender(n *replayModelNode, prefix string, isRoot, isLast bool, f [4]string, sb *strings.Builder) {
	if isRoot {
		sb.WriteString(n.name + "\n")
	} else {
		conn := f[2]
		if isLast {
			conn = f[0]
		}
		sb.WriteString(prefix + conn + " " + n.name + "\n")
	}
	for i, k := range n.kids {
		np := prefix
		if !isRoot {
			if isLast {
				np += f[1]
			} else {
				np += f[3]
			}
		}
		replayModelRender(k, np, false, i == len(n.kids)-1, f, sb)
	}
}

// TestReplay_FromMarkdown: OutputFromMarkdown (both routes) against the independent model and against specRenderAll
// of the generated forest; spellings; error on level jumps.
func TestReplay_FromMarkdown(t *testing.T) {
	n := 0
	f := replayFormats[0]
	replayDocs(5, func(lines []replayLine) {
		// the indentation unit is learnt from the first indented row: only documents whose first indented row has depth 1
		// have the intended reading
		for _, l := range lines {
			if l.depth > 0 {
				if l.depth != 1 {
					return
				}
				break
			}
		}
		n++
		model, ok := replayModel(lines)
		doc := replaySpell(lines, "  ", "-")
		var want strings.Builder
		for _, r := range model {
			replayModelRender(r, "", true, false, f, &want)
		}
		for _, opts := range [][]Option{nil, {WithNoUseIterOfSimpleOutput()}} {
			var buf bytes.Buffer
			err := OutputFromMarkdown(&buf, strings.NewReader(doc), opts...)
			if !ok {
				if err == nil {
					t.Fatalf("REPLAY-FAIL gtree.stack.dfs/post#reported input: document %q (item nested more than one level deeper): returned nil and printed\n%s", doc, buf.String())
				}
				continue
			}
			if err != nil || buf.String() != want.String() {
				t.Fatalf("REPLAY-FAIL gtree.OutputFromMarkdown/post#render input: document %q options=%d: err=%v\ngot:\n%swant:\n%s", doc, len(opts), err, buf.String(), want.String())
			}
		}
		if !ok {
			return
		}
		// equivalent spellings give identical output
		for _, sp := range []struct{ indent, bullets string }{{"\t", "*"}, {"    ", "-+*"}, {" ", "+"}} {
			var buf bytes.Buffer
			doc2 := replaySpell(lines, sp.indent, sp.bullets)
			if err := OutputFromMarkdown(&buf, strings.NewReader(doc2)); err != nil || buf.String() != want.String() {
				t.Fatalf("REPLAY-FAIL markdown.Parser.Parse/post#item input: spelling %q of document %q: err=%v\ngot:\n%swant:\n%s", doc2, doc, err, buf.String(), want.String())
			}
		}
		// generator + grower + spreader against the spec functions on the generated forest
		roots, err := newRootGeneratorSimple(strings.NewReader(doc)).generate()
		if err != nil {
			t.Fatalf("REPLAY-FAIL gtree.rootGeneratorSimple.generate/post#roots input: document %q: %v", doc, err)
		}
		last, mid := branchFormat{f[0], f[1]}, branchFormat{f[2], f[3]}
		if got := specRenderAll(last, mid, roots, len(roots)); got != want.String() {
			t.Fatalf("REPLAY-FAIL gtree.stack.dfs/post#attach input: document %q: forest renders as\n%swant:\n%s", doc, got, want.String())
		}
	})
	for _, in := range []string{"", "\n", "  \n\t\n"} {
		var buf bytes.Buffer
		if err := OutputFromMarkdown(&buf, strings.NewReader(in)); err != nil || buf.Len() != 0 {
			t.Fatalf("REPLAY-FAIL gtree.rootGeneratorSimple.generateIter#1/yield#rootStream/nonnil input: document %q: err=%v out=%q", in, err, buf.String())
		}
	}
	t.Logf("REPLAY-OK from-markdown: %d documents", n)
}

// ---------- writers that fail ----------

type replayFailWriter struct {
	okWrites int
	n        int
}

func (w *replayFailWriter) Write(p []byte) (int, error) {
	if w.n >= w.okWrites {
		return 0, errors.New("write refused")
	}
	w.n++
	return len(p), nil
}

// TestReplay_WriterFailure: no route may return nil when a write was refused.
func TestReplay_WriterFailure(t *testing.T) {
	doc := "- a\n  - b\n    - c\n  - d\n- e\n"
	r := NewRoot("a")
	r.Add("b").Add("c")
	r.Add("d")
	for k := 0; k < 5; k++ {
		routes := map[string]func(w *replayFailWriter) error{
			"gtree.defaultSpreaderSimple.spreadBranch/post#accepted (OutputFromMarkdown)": func(w *replayFailWriter) error {
				return OutputFromMarkdown(w, strings.NewReader(doc))
			},
			"gtree.defaultSpreaderSimple.spread/post#accepted (OutputFromMarkdown, no iterator)": func(w *replayFailWriter) error {
				return OutputFromMarkdown(w, strings.NewReader(doc), WithNoUseIterOfSimpleOutput())
			},
			"gtree.defaultGrowSpreaderSimple.assembleAndPrint/post#accepted (OutputFromRoot)": func(w *replayFailWriter) error {
				return OutputFromRoot(w, r)
			},
			"gtree.colorizeSpreaderSimple.write/post#fail (dry run)": func(w *replayFailWriter) error {
				return OutputFromMarkdown(w, strings.NewReader(doc), WithDryRun())
			},
			"gtree.formattedSpreaderSimple.spread/post#fail (JSON)": func(w *replayFailWriter) error {
				return OutputFromMarkdown(w, strings.NewReader(doc), WithEncodeJSON())
			},
		}
		keys := make([]string, 0, len(routes))
		for name := range routes {
			keys = append(keys, name)
		}
		sort.Strings(keys)
		for _, name := range keys {
			w := &replayFailWriter{okWrites: k}
			err := routes[name](w)
			if err == nil && w.n >= w.okWrites {
				// every write up to the k-th was accepted; was there a refused one? only if more were attempted
				probe := &replayFailWriter{okWrites: 1 << 30}
				routes[name](probe)
				if probe.n > k {
					t.Fatalf("REPLAY-FAIL %s input: writer refusing from write #%d on (route attempts %d writes): returned nil", name, k+1, probe.n)
				}
			}
		}
	}
	t.Logf("REPLAY-OK writer failures")
}

// ---------- mkdir on a real temporary directory ----------

func replaySnapshot(dir string) []string {
	var out []string
	filepath.Walk(dir, func(p string, info os.FileInfo, err error) error {
		if err != nil || p == dir {
			return nil
		}
		rel, _ := filepath.Rel(dir, p)
		kind := "F "
		if info.IsDir() {
			kind = "D "
		}
		out = append(out, kind+rel)
		return nil
	})
	sort.Strings(out)
	return out
}

// TestReplay_Mkdir: MkdirFromRoot against the specification of kinds and paths; validation; dry run; verify afterwards.
func TestReplay_Mkdir(t *testing.T) {
	exts := [][]string{nil, {".go"}, {"b", ".go"}}
	n := 0
	replayTrees(4, []string{"a", "b.go"}, func(root *Node, all []*Node, desc string) {
		for _, ext := range exts {
			n++
			jail := t.TempDir()
			target := filepath.Join(jail, "target")
			os.Mkdir(target, 0o755)
			os.WriteFile(filepath.Join(jail, "sentinel"), []byte("x"), 0o644)
			// dry run creates nothing
			if err := MkdirFromRoot(root, WithDryRun(), WithTargetDir(target), WithFileExtensions(ext)); err != nil {
				t.Fatalf("REPLAY-FAIL gtree.treeSimple.mkdirProgrammably/post#dryrun input: %s ext=%v: %v", desc, ext, err)
			}
			if s := replaySnapshot(target); len(s) != 0 {
				t.Fatalf("REPLAY-FAIL gtree.treeSimple.mkdirProgrammably/post#dryrun input: %s ext=%v: dry run created %v", desc, ext, s)
			}
			if err := MkdirFromRoot(root, WithTargetDir(target), WithFileExtensions(ext)); err != nil {
				t.Fatalf("REPLAY-FAIL gtree.defaultMkdirerSimple.mkdir/post#ops input: %s ext=%v: %v", desc, ext, err)
			}
			var want []string
			for _, nd := range all {
				kind := "D "
				if specIsFile(ext, nd) {
					kind = "F "
				}
				want = append(want, kind+filepath.FromSlash(specPath(nd)))
			}
			sort.Strings(want)
			got := replaySnapshot(target)
			if strings.Join(got, "\n") != strings.Join(want, "\n") {
				t.Fatalf("REPLAY-FAIL gtree.defaultMkdirerSimple.makeDirectoriesAndFiles/post#ops input: %s ext=%v:\ngot  %v\nwant %v", desc, ext, got, want)
			}
			if s := replaySnapshot(jail); len(s) != len(got)+2 {
				t.Fatalf("REPLAY-FAIL gtree.treeSimple.mkdirProgrammably/post#validated input: %s: something outside the target changed: %v", desc, s)
			}
			// a second run must fail with ErrExistPath and change nothing
			if err := MkdirFromRoot(root, WithTargetDir(target), WithFileExtensions(ext)); err != ErrExistPath {
				t.Fatalf("REPLAY-FAIL gtree.defaultMkdirerSimple.mkdir/post#exists input: %s: second run returned %v", desc, err)
			}
			// (a root that Mkdir creates as a regular file included: the defect recorded as model:fs.WalkDir#file-root was repaired)
			if err := VerifyFromRoot(root, WithTargetDir(target), WithStrictVerify()); err != nil {
				obl := "gtree.defaultVerifierSimple.verify/post#ok"
				if specIsFile(ext, root) {
					obl = "gtree.defaultVerifierSimple.verifyRoot/post#exists"
				}
				t.Fatalf("REPLAY-FAIL %s input: %s ext=%v: strict verify after mkdir: %v", obl, desc, ext, err)
			}
		}
	})
	for _, bad := range []string{"..", ".", "", "x/y"} {
		jail := t.TempDir()
		target := filepath.Join(jail, "target")
		os.Mkdir(target, 0o755)
		r := NewRoot("a")
		r.Add(bad).Add("z")
		if err := MkdirFromRoot(r, WithTargetDir(target)); err == nil || len(replaySnapshot(jail)) != 1 {
			t.Fatalf("REPLAY-FAIL gtree.Node.validatePath/post#elem input: child named %q: err=%v created=%v", bad, err, replaySnapshot(jail))
		}
		doc := "- a\n  - " + bad + "\n    - z\n"
		if bad != "" {
			if err := MkdirFromMarkdown(strings.NewReader(doc), WithTargetDir(target)); err == nil || len(replaySnapshot(jail)) != 1 {
				t.Fatalf("REPLAY-FAIL gtree.treeSimple.mkdir/post#validated input: document %q: err=%v created=%v", doc, err, replaySnapshot(jail))
			}
		}
	}
	t.Logf("REPLAY-OK mkdir: %d (tree, extensions) cases", n)
}

// ---------- second round: the production (iterator) route, dry run, reader failures, the massive mode ----------

// replayCountKinds: directories and files of a model tree by the rule Mkdir uses (childless and a configured suffix).
func replayCountKinds(n *replayModelNode, ext []string) (dirs, files int) {
	isFile := false
	if len(n.kids) == 0 {
		for _, e := range ext {
			if strings.HasSuffix(n.name, e) {
				isFile = true
			}
		}
	}
	if isFile {
		files++
	} else {
		dirs++
	}
	for _, k := range n.kids {
		d, f := replayCountKinds(k, ext)
		dirs, files = dirs+d, files+f
	}
	return
}

// replayDocsNamed is replayDocs over a caller-chosen name alphabet.
func replayDocsNamed(maxLines int, names []string, f func(lines []replayLine)) {
	var rec func(cur []replayLine)
	rec = func(cur []replayLine) {
		f(cur)
		if len(cur) == maxLines {
			return
		}
		for d := 0; d <= 2; d++ {
			for _, n := range names {
				rec(append(append([]replayLine(nil), cur...), replayLine{d, n}))
			}
		}
	}
	for _, n := range names {
		rec([]replayLine{{0, n}})
	}
}

// TestReplay_DryRunReport: the dry-run report (both routes of the simple mode, and the massive mode per root) is, per root,
// the plain tree text followed by the counts a real Mkdir with the same extensions would create.
func TestReplay_DryRunReport(t *testing.T) {
	color.NoColor = true
	ext := []string{".go"}
	f := replayFormats[0]
	n := 0
	replayDocsNamed(5, []string{"a", "b.go"}, func(lines []replayLine) {
		model, ok := replayModel(lines)
		if !ok {
			return
		}
		n++
		doc := replaySpell(lines, "  ", "-")
		var want strings.Builder
		var blocks []string
		for _, r := range model {
			var b strings.Builder
			replayModelRender(r, "", true, false, f, &b)
			d, fl := replayCountKinds(r, ext)
			fmt.Fprintf(&b, "\n%d directories, %d files\n", d, fl)
			want.WriteString(b.String())
			blocks = append(blocks, b.String())
		}
		for i, opts := range [][]Option{{WithDryRun(), WithFileExtensions(ext)}, {WithDryRun(), WithFileExtensions(ext), WithNoUseIterOfSimpleOutput()}} {
			var buf bytes.Buffer
			if err := OutputFromMarkdown(&buf, strings.NewReader(doc), opts...); err != nil || buf.String() != want.String() {
				name := "gtree.colorizeSpreaderSimple.spreadIter#1/loop#1/inv-keep#sofar"
				if i == 1 {
					name = "gtree.colorizeSpreaderSimple.spread/post#report"
				}
				t.Fatalf("REPLAY-FAIL %s input: dry run of document %q (extensions %v): err=%v\ngot:\n%swant:\n%s", name, doc, ext, err, buf.String(), want.String())
			}
		}
		if len(lines) <= 4 {
			// massive mode: the same blocks in any order
			var buf bytes.Buffer
			err := OutputFromMarkdown(&buf, strings.NewReader(doc), WithDryRun(), WithFileExtensions(ext), WithMassive(context.Background()))
			got := buf.String()
			rest := got
			for _, b := range blocks {
				i := strings.Index(rest, b)
				if i < 0 {
					rest = "\x00"
					break
				}
				rest = rest[:i] + rest[i+len(b):]
			}
			if err != nil || rest != "" {
				t.Fatalf("REPLAY-FAIL gtree.colorizeSpreaderPipeline.spread#1/loop#1/inv-keep#sofar input: massive dry run of document %q: err=%v\ngot:\n%swant the blocks (any order):\n%s", doc, err, got, want.String())
			}
		}
	})
	t.Logf("REPLAY-OK dry-run report: %d documents", n)
}

type replayFailReader struct {
	data []byte
	pos  int
	err  error
}

func (r *replayFailReader) Read(p []byte) (int, error) {
	if r.pos >= len(r.data) {
		return 0, r.err
	}
	n := copy(p, r.data[r.pos:])
	r.pos += n
	return n, nil
}

// TestReplay_ReaderFailure: a reader that fails after k complete lines: every From-Markdown route returns that error.
func TestReplay_ReaderFailure(t *testing.T) {
	boom := errors.New("reader broke")
	doc := "- a\n  - b\n- c\n  - d\n    - e\n"
	lines := strings.SplitAfter(doc, "\n")
	for k := 0; k <= len(lines)-1; k++ {
		prefix := strings.Join(lines[:k], "")
		routes := []struct {
			name string
			run  func() error
		}{
			{"gtree.rootGeneratorSimple.generateIter#1/yield#rootStream/readerr", func() error {
				return OutputFromMarkdown(&bytes.Buffer{}, &replayFailReader{data: []byte(prefix), err: boom})
			}},
			{"gtree.rootGeneratorSimple.generate/post#readerr2", func() error {
				return OutputFromMarkdown(&bytes.Buffer{}, &replayFailReader{data: []byte(prefix), err: boom}, WithNoUseIterOfSimpleOutput())
			}},
			{"gtree.rootGeneratorSimple.generateIter#1/yield#rootStream/readerr (JSON)", func() error {
				return OutputFromMarkdown(&bytes.Buffer{}, &replayFailReader{data: []byte(prefix), err: boom}, WithEncodeJSON())
			}},
			{"gtree.rootGeneratorSimple.generate/post#readerr2 (walk)", func() error {
				return WalkFromMarkdown(&replayFailReader{data: []byte(prefix), err: boom}, func(*WalkerNode) error { return nil })
			}},
		}
		for _, r := range routes {
			if err := r.run(); !errors.Is(err, boom) {
				t.Fatalf("REPLAY-FAIL %s input: reader failing after %d complete lines of %q: returned %v", r.name, k, doc, err)
			}
		}
	}
	t.Logf("REPLAY-OK reader failures")
}

// TestReplay_LinesRepresented: when nil is returned every non-blank line is a node of the output (iterator route, JSON,
// blank lines anywhere); a line the model rejects is reported.
func TestReplay_LinesRepresented(t *testing.T) {
	n := 0
	replayDocs(4, func(lines []replayLine) {
		for _, l := range lines {
			if l.depth > 0 {
				if l.depth != 1 {
					return
				}
				break
			}
		}
		model, ok := replayModel(lines)
		if !ok {
			return
		}
		// blank lines after every position
		for blankAt := 0; blankAt <= len(lines); blankAt++ {
			n++
			var sb strings.Builder
			for i, l := range lines {
				if i == blankAt {
					sb.WriteString("  \n")
				}
				sb.WriteString(strings.Repeat("  ", l.depth) + "- " + l.name + "\n")
			}
			if blankAt == len(lines) {
				sb.WriteString("\n")
			}
			var want strings.Builder
			for _, r := range model {
				replayModelRender(r, "", true, false, replayFormats[0], &want)
			}
			var buf bytes.Buffer
			if err := OutputFromMarkdown(&buf, strings.NewReader(sb.String())); err != nil || buf.String() != want.String() {
				t.Fatalf("REPLAY-FAIL gtree.rootGeneratorSimple.generateIter#1/loop#1/inv-keep#lines input: document %q: err=%v\ngot:\n%swant:\n%s", sb.String(), err, buf.String(), want.String())
			}
		}
	})
	t.Logf("REPLAY-OK lines represented: %d documents with blank lines", n)
}

// TestReplay_Massive: the massive mode neither crashes nor swallows errors on the inputs that did so once; single-root
// results equal the simple mode's.
func TestReplay_Massive(t *testing.T) {
	ctx := context.Background()
	for _, in := range []string{"", "\n", "  \n\n", "\n- a\n  - b\n", "- a\n\n  - b\n"} {
		var simple, massive bytes.Buffer
		errS := OutputFromMarkdown(&simple, strings.NewReader(in))
		errM := OutputFromMarkdown(&massive, strings.NewReader(in), WithMassive(ctx))
		if (errS == nil) != (errM == nil) || (errS == nil && simple.String() != massive.String()) {
			t.Fatalf("REPLAY-FAIL gtree.rootGeneratorPipeline.worker/send#rootChan/nonnil input: document %q: simple err=%v out=%q, massive err=%v out=%q", in, errS, simple.String(), errM, massive.String())
		}
	}
	doc := "- a\n  - b\n- c\n"
	for name, opts := range map[string][]Option{
		"gtree.defaultSpreaderPipeline.worker/post#reported":                         {WithMassive(ctx)},
		"gtree.colorizeSpreaderPipeline.spread#1/loop#1/inv-keep#reported":           {WithMassive(ctx), WithDryRun()},
		"gtree.formattedSpreaderPipeline.spread[jsonNode]#1/loop#1/inv-keep#reported": {WithMassive(ctx), WithEncodeJSON()},
	} {
		if err := OutputFromMarkdown(&replayFailWriter{okWrites: 0}, strings.NewReader(doc), opts...); err == nil {
			t.Fatalf("REPLAY-FAIL %s input: writer refusing every write, document %q, massive mode: returned nil", name, doc)
		}
	}
	for _, bad := range []string{"..", "x/y"} {
		jail := t.TempDir()
		target := filepath.Join(jail, "target")
		os.Mkdir(target, 0o755)
		r := NewRoot("a")
		r.Add(bad).Add("z")
		if err := MkdirFromRoot(r, WithTargetDir(target), WithMassive(ctx)); err == nil || len(replaySnapshot(jail)) != 1 {
			t.Fatalf("REPLAY-FAIL gtree.treePipeline.mkdirProgrammably/call#gtree.defaultMkdirerPipeline.mkdir/pre#validating input: massive MkdirFromRoot, child named %q: err=%v created=%v", bad, err, replaySnapshot(jail))
		}
		if err := MkdirFromMarkdown(strings.NewReader("- "+bad+"\n"), WithTargetDir(target), WithMassive(ctx)); bad == "x/y" && (err == nil || len(replaySnapshot(jail)) != 1) {
			t.Fatalf("REPLAY-FAIL gtree.defaultGrowerPipeline.worker/send#grownChan/valid input: massive MkdirFromMarkdown, root named %q: err=%v created=%v", bad, err, replaySnapshot(jail))
		}
	}
	t.Logf("REPLAY-OK massive mode")
}

// TestReplay_ErrorTexts: the text of a verification error is specVerifyText of its lists; a format error names the row.
func TestReplay_ErrorTexts(t *testing.T) {
	lists := [][]string{nil, {}, {"t/a"}, {"t/a", "t/a/b"}, {"x", "y", "z"}}
	for _, strict := range []bool{false, true} {
		for _, extra := range lists {
			for _, missing := range lists {
				got := verifyError{strict: strict, extra: extra, noExists: missing}.Error()
				if want := specVerifyText(strict, extra, missing); got != want {
					t.Fatalf("REPLAY-FAIL gtree.verifyError.Error/post#text input: strict=%v extra=%q noExists=%q: Error() = %q, specified %q", strict, extra, missing, got, want)
				}
			}
		}
	}
	for _, doc := range []struct{ text, row string }{
		{"- a\n  - b\n      - c\n", "      - c"},
		{"- a\n  b\n", "  b"},
		{"- a\n   - b\n  - c\n", "  - c"},
	} {
		for name, run := range map[string]func() error{
			"iterator": func() error { return OutputFromMarkdown(&bytes.Buffer{}, strings.NewReader(doc.text)) },
			"plain": func() error {
				return OutputFromMarkdown(&bytes.Buffer{}, strings.NewReader(doc.text), WithNoUseIterOfSimpleOutput())
			},
			"walk": func() error { return WalkFromMarkdown(strings.NewReader(doc.text), func(*WalkerNode) error { return nil }) },
		} {
			err := run()
			if err == nil || err.Error() != "incorrect input format: "+doc.row {
				t.Fatalf("REPLAY-FAIL gtree.inputFormatError.Error/post#text input: document %q (%s route): error %v, expected the format error naming row %q", doc.text, name, err, doc.row)
			}
		}
	}
	t.Logf("REPLAY-OK error texts")
}

// TestReplay_WalkStops: a callback that fails at its k-th call is not called again and its error is returned unchanged
// (From-Root for every small tree, From-Markdown for forests of several roots).
func TestReplay_WalkStops(t *testing.T) {
	boom := errors.New("callback failed")
	n := 0
	replayTrees(5, []string{"a", "b"}, func(root *Node, all []*Node, desc string) {
		for k := 1; k <= len(all); k++ {
			calls := 0
			err := WalkFromRoot(root, func(*WalkerNode) error {
				calls++
				if calls == k {
					return boom
				}
				return nil
			})
			n++
			if calls != k || err != boom {
				t.Fatalf("REPLAY-FAIL gtree.defaultWalkerSimple.walkNode/post#nomore input: WalkFromRoot on %s, callback failing at call %d: %d calls, returned %v", desc, k, calls, err)
			}
		}
	})
	doc := "- a\n  - b\n  - c\n- d\n  - e\n- f\n"
	for k := 1; k <= 6; k++ {
		calls := 0
		err := WalkFromMarkdown(strings.NewReader(doc), func(*WalkerNode) error {
			calls++
			if calls == k {
				return boom
			}
			return nil
		})
		if calls != k || err != boom {
			t.Fatalf("REPLAY-FAIL gtree.treeSimple.walk/post#nomore input: WalkFromMarkdown on %q, callback failing at call %d: %d calls, returned %v", doc, k, calls, err)
		}
	}
	t.Logf("REPLAY-OK walk stops: %d runs", n)
}

// TestReplay_MassiveStages: the stages of the massive mode that came under contract last: encoders are constructed, the walk
// stage survives the end of its input, the splitter neither swallows a reader failure before the first root nor drops
// what precedes the first root.
func TestReplay_MassiveStages(t *testing.T) {
	ctx := context.Background()
	doc := "- a\n  - b\n"
	for name, opts := range map[string][]Option{
		"gtree.newTreeSimple/post#tree (json)":       {WithEncodeJSON()},
		"gtree.newTreeSimple/post#tree (yaml)":       {WithEncodeYAML()},
		"gtree.newTreeSimple/post#tree (toml)":       {WithEncodeTOML()},
		"gtree.newTreePipeline/post#pipeline (json)": {WithMassive(ctx), WithEncodeJSON()},
		"gtree.newTreePipeline/post#pipeline (yaml)": {WithMassive(ctx), WithEncodeYAML()},
		"gtree.newTreePipeline/post#pipeline (toml)": {WithMassive(ctx), WithEncodeTOML()},
	} {
		var out bytes.Buffer
		if err := OutputFromMarkdown(&out, strings.NewReader(doc), opts...); err != nil || out.Len() == 0 {
			t.Fatalf("REPLAY-FAIL %s input: document %q: err=%v, %d bytes", name, doc, err, out.Len())
		}
	}
	seen := 0
	if err := WalkFromMarkdown(strings.NewReader(doc), func(*WalkerNode) error { seen++; return nil }, WithMassive(ctx)); err != nil || seen != 2 {
		t.Fatalf("REPLAY-FAIL gtree.defaultWalkerPipeline.worker/call#gtree.defaultWalkerSimple.walkNode/pre#nn input: massive WalkFromMarkdown on %q: err=%v, %d callbacks", doc, err, seen)
	}
	boom := errors.New("reader broke")
	for _, prefix := range []string{"", "\n", "  \n\n"} {
		if err := OutputFromMarkdown(&bytes.Buffer{}, &replayFailReader{data: []byte(prefix), err: boom}, WithMassive(ctx)); !errors.Is(err, boom) {
			t.Fatalf("REPLAY-FAIL gtree.split#1/post#reported input: massive mode, reader failing after %q: returned %v", prefix, err)
		}
	}
	if err := OutputFromMarkdown(&bytes.Buffer{}, strings.NewReader("  - orphan\n- a\n  - b\n"), WithMassive(ctx)); err == nil {
		t.Fatalf("REPLAY-FAIL gtree.split#1/post#all input: massive mode, an item before the first root: returned nil")
	}
	if err := OutputFromMarkdown(&replayFailWriter{okWrites: 0}, strings.NewReader(doc), WithMassive(ctx), WithEncodeYAML()); err == nil {
		t.Fatalf("REPLAY-FAIL gtree.treePipeline.handlePipelineErr/post#seen input: massive YAML output, writer refusing every write: returned nil")
	}
	for _, hdoc := range []string{"# a\n- x\n", "# a\n- x\n  - y\n# b\n- z\n", "# a\n# b\n- x\n"} {
		var simple bytes.Buffer
		if err := OutputFromMarkdown(&simple, strings.NewReader(hdoc)); err != nil {
			t.Fatalf("REPLAY-FAIL gtree.split#1/loop#1/inv-keep#cuts input: document %q is rejected by the simple mode: %v", hdoc, err)
		}
		for i := 0; i < 5; i++ {
			var massive bytes.Buffer
			err := OutputFromMarkdown(&massive, strings.NewReader(hdoc), WithMassive(ctx))
			if err != nil || len(massive.String()) != len(simple.String()) {
				t.Fatalf("REPLAY-FAIL gtree.split#1/loop#1/inv-keep#cuts input: document %q with heading roots, massive mode: err=%v out=%q (simple mode: %q)", hdoc, err, massive.String(), simple.String())
			}
		}
	}
	// every root a worker receives is processed: the multiset of root blocks of the massive text output equals the simple mode's
	forest := "- a\n  - b\n- c\n- d\n  - e\n    - f\n"
	var simpleOut bytes.Buffer
	OutputFromMarkdown(&simpleOut, strings.NewReader(forest))
	blocks := func(s string) []string {
		var bs []string
		for _, l := range strings.SplitAfter(s, "\n") {
			if l == "" {
				continue
			}
			if len(bs) == 0 || !(strings.HasPrefix(l, "├") || strings.HasPrefix(l, "└") || strings.HasPrefix(l, "│") || strings.HasPrefix(l, " ")) {
				bs = append(bs, "")
			}
			bs[len(bs)-1] += l
		}
		sort.Strings(bs)
		return bs
	}
	for i := 0; i < 5; i++ {
		var m bytes.Buffer
		if err := OutputFromMarkdown(&m, strings.NewReader(forest), WithMassive(ctx)); err != nil || strings.Join(blocks(m.String()), "|") != strings.Join(blocks(simpleOut.String()), "|") {
			t.Fatalf("REPLAY-FAIL gtree.defaultSpreaderPipeline.worker/post#text input: document %q, massive text output: err=%v blocks=%q (simple mode: %q)", forest, err, blocks(m.String()), blocks(simpleOut.String()))
		}
	}
	// leading blank lines are no error in the massive mode
	for _, lead := range []string{"\n- a\n  - b\n", "  \n\n- a\n", "\r\n- a\n"} {
		if err := OutputFromMarkdown(&bytes.Buffer{}, strings.NewReader(lead), WithMassive(ctx)); err != nil {
			t.Fatalf("REPLAY-FAIL gtree.rootGeneratorPipeline.worker/post#genuine input: massive mode, document %q with leading blank lines: %v", lead, err)
		}
	}
	// massive mkdir: a root that exists in the target is reported and nothing is created under it
	{
		jail := t.TempDir()
		target := filepath.Join(jail, "target")
		os.MkdirAll(filepath.Join(target, "proj"), 0o755)
		before := replaySnapshot(jail)
		err := MkdirFromMarkdown(strings.NewReader("- proj\n  - src\n"), WithTargetDir(target), WithMassive(ctx))
		if !errors.Is(err, ErrExistPath) || strings.Join(replaySnapshot(jail), " ") != strings.Join(before, " ") {
			t.Fatalf("REPLAY-FAIL gtree.defaultMkdirerPipeline.worker/post#fresh input: massive MkdirFromMarkdown, root proj exists in the target: err=%v, snapshot %v (before: %v)", err, replaySnapshot(jail), before)
		}
		// massive verify: a missing path and (strict) an extra entry are reported
		if err := VerifyFromMarkdown(strings.NewReader("- proj\n  - src\n"), WithTargetDir(target), WithMassive(ctx)); err == nil {
			t.Fatalf("REPLAY-FAIL gtree.defaultVerifierPipeline.worker/post#mismatch input: massive VerifyFromMarkdown, proj/src missing: returned nil")
		}
		os.MkdirAll(filepath.Join(target, "proj", "src"), 0o755)
		os.MkdirAll(filepath.Join(target, "proj", "extra"), 0o755)
		if err := VerifyFromMarkdown(strings.NewReader("- proj\n  - src\n"), WithTargetDir(target), WithMassive(ctx), WithStrictVerify()); err == nil {
			t.Fatalf("REPLAY-FAIL gtree.defaultVerifierPipeline.worker/post#mismatch input: massive strict VerifyFromMarkdown, proj/extra is extra: returned nil")
		}
		if err := VerifyFromMarkdown(strings.NewReader("- proj\n  - src\n"), WithTargetDir(target), WithMassive(ctx)); err != nil {
			t.Fatalf("REPLAY-FAIL gtree.defaultVerifierPipeline.worker/post#mismatch input: massive non-strict VerifyFromMarkdown, everything present: %v", err)
		}
	}
	t.Logf("REPLAY-OK massive stages")
}
