//go:build verif

package markdown

// Replay / cross-check harness for the markdown package (injected with `go test -overlay`; never written into /repo).
// It evaluates the contracts of /repo/markdown/verif_contracts.go at run time, with the same executable spec
// functions the verifier translates to logic, on an enumerated input space. It decides nothing: it only looks
// for a concrete failing input after the verifier has reported an undischarged obligation (and, in the thorough
// tier, cross-checks the verifier on the unchanged tree).

import (
	"fmt"
	"strings"
	"testing"
)

var replayAlphabet = []byte{' ', '\t', '-', '*', '+', '#', 'a', 0xC3}

func replayRows(maxLen int, f func(string)) {
	var rec func(prefix []byte)
	rec = func(prefix []byte) {
		f(string(prefix))
		if len(prefix) == maxLen {
			return
		}
		for _, b := range replayAlphabet {
			rec(append(append([]byte(nil), prefix...), b))
		}
	}
	rec(nil)
}

type replayState struct {
	sharp  bool
	spaces int
	sep    string
}

func replayStates() []replayState {
	var out []replayState
	for _, sharp := range []bool{false, true} {
		for _, spaces := range []int{0, 1, 2, 3} {
			for _, sep := range []string{"", " ", "\t"} {
				out = append(out, replayState{sharp, spaces, sep})
			}
		}
	}
	return out
}

func replayExpectSep(st replayState, row string) string {
	if specIndent(row) == 0 {
		return ""
	}
	if st.sep != "" {
		return st.sep
	}
	return row[0:1]
}

// TestReplay_Parse checks Parser.Parse against its contract (clauses blank, heading, reject, empty, item).
func TestReplay_Parse(t *testing.T) {
	maxLen := 5
	n := 0
	replayRows(maxLen, func(row string) {
		for _, st := range replayStates() {
			n++
			p := &Parser{isSharpRoot: st.sharp, spaces: st.spaces, sep: st.sep}
			m, err := p.Parse(row)
			fail := func(clause, msg string) {
				t.Fatalf("REPLAY-FAIL markdown.Parser.Parse/post#%s input: row=%q state={sharp:%v spaces:%d sep:%q}: %s (got m=%+v err=%v, state after={sharp:%v spaces:%d sep:%q})",
					clause, row, st.sharp, st.spaces, st.sep, msg, m, err, p.isSharpRoot, p.spaces, p.sep)
			}
			blank := strings.TrimSpace(row) == ""
			switch {
			case blank:
				if err != ErrBlankLine || m != nil || p.isSharpRoot != st.sharp || p.spaces != st.spaces || p.sep != st.sep {
					fail("blank", "blank row must give ErrBlankLine and leave the state alone")
				}
			case row[0] == '#':
				want := specHeadingText(row)
				if !p.isSharpRoot || p.spaces != st.spaces || p.sep != st.sep {
					fail("heading", "heading row must set isSharpRoot and keep spaces/sep")
				}
				if want == "" {
					if err != ErrEmptyText {
						fail("heading", "empty heading must give ErrEmptyText")
					}
				} else if err != nil || m == nil || m.hierarchy != 1 || m.text != want {
					fail("heading", fmt.Sprintf("want hierarchy 1 text %q", want))
				}
			case !specItemShape(st.sep, st.spaces, row):
				if err != ErrIncorrectFormat {
					fail("reject", "malformed item row must give ErrIncorrectFormat")
				}
			case specItemText(row) == "":
				if err != ErrEmptyText {
					fail("empty", "item without text must give ErrEmptyText")
				}
			default:
				wantH := uint(specDepth(st.spaces, row) + 1)
				if st.sharp {
					wantH++
				}
				if err != nil || m == nil || m.text != specItemText(row) || m.hierarchy != wantH {
					fail("item", fmt.Sprintf("want text %q hierarchy %d", specItemText(row), wantH))
				}
				if p.isSharpRoot != st.sharp || p.spaces != specUnit(st.spaces, row) || p.sep != replayExpectSep(st, row) {
					fail("item", fmt.Sprintf("want state spaces=%d sep=%q", specUnit(st.spaces, row), replayExpectSep(st, row)))
				}
			}
			if (m == nil) != (err != nil) {
				fail("res", "exactly one of result and error")
			}
		}
	})
	t.Logf("REPLAY-OK markdown.Parser.Parse: %d (row, state) pairs, rows up to %d bytes over %q", n, maxLen, replayAlphabet)
}

// TestReplay_SeparateRow checks separateRow (clauses ok, res) and validateSpaces.
func TestReplay_SeparateRow(t *testing.T) {
	n := 0
	replayRows(5, func(row string) {
		if len(row) == 0 {
			return
		}
		for _, st := range replayStates() {
			n++
			p := &Parser{isSharpRoot: st.sharp, spaces: st.spaces, sep: st.sep}
			cnt, after, err := p.separateRow(row)
			shape := specItemShape(st.sep, st.spaces, row)
			if (err == nil) != shape {
				t.Fatalf("REPLAY-FAIL markdown.Parser.separateRow/post#ok input: row=%q state={spaces:%d sep:%q}: accepted=%v but specItemShape=%v", row, st.spaces, st.sep, err == nil, shape)
			}
			if err == nil {
				k := specIndent(row)
				if cnt != k || after != row[k+1:] || p.spaces != specUnit(st.spaces, row) || p.sep != replayExpectSep(st, row) {
					t.Fatalf("REPLAY-FAIL markdown.Parser.separateRow/post#res input: row=%q state={spaces:%d sep:%q}: got (%d,%q) state={spaces:%d sep:%q}, want (%d,%q) state={spaces:%d sep:%q}",
						row, st.spaces, st.sep, cnt, after, p.spaces, p.sep, k, row[k+1:], specUnit(st.spaces, row), replayExpectSep(st, row))
				}
			} else if err != ErrIncorrectFormat {
				t.Fatalf("REPLAY-FAIL markdown.Parser.separateRow/post#err input: row=%q: error %v", row, err)
			}
		}
	})
	for spaces := 0; spaces <= 4; spaces++ {
		for sc := 0; sc <= 9; sc++ {
			p := &Parser{spaces: spaces}
			err := p.validateSpaces(sc)
			want := spaces <= 1 || sc%spaces == 0
			if (err == nil) != want {
				t.Fatalf("REPLAY-FAIL markdown.Parser.validateSpaces/post#ok input: spaces=%d spaceCount=%d: got err=%v", spaces, sc, err)
			}
		}
	}
	t.Logf("REPLAY-OK markdown.Parser.separateRow: %d cases", n)
}
