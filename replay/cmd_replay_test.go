//go:build verif

package main

// Replay harness for cmd/gtree (injected with `go test -overlay`; never written into /repo). It runs the real action
// functions through a cli.App that declares the flags main() declares, with stdin / stdout redirected to pipes and
// files under t.TempDir(), and compares with the library called directly with the options the flags stand for.
// It decides nothing; a REPLAY-FAIL line gives a failing input for a violated obligation of package main.

import (
	"bytes"
	"io"
	"os"
	"path/filepath"
	"strings"
	"testing"
	"time"

	"github.com/ddddddO/gtree"
	"github.com/fatih/color"
	"github.com/urfave/cli/v2"
)

func replayApp() *cli.App {
	file := &cli.PathFlag{Name: "file", Aliases: []string{"f"}}
	return &cli.App{
		Name: "gtree",
		Commands: []*cli.Command{
			{Name: "output", Before: notExistArgs, Action: actionOutput, Flags: []cli.Flag{file,
				&cli.BoolFlag{Name: "massive", Aliases: []string{"m"}},
				&cli.DurationFlag{Name: "massive-timeout", Aliases: []string{"mt"}},
				&cli.StringFlag{Name: "format"},
				&cli.BoolFlag{Name: "watch", Aliases: []string{"w"}}}},
			{Name: "mkdir", Before: notExistArgs, Action: actionMkdir, Flags: []cli.Flag{file,
				&cli.BoolFlag{Name: "massive"},
				&cli.BoolFlag{Name: "dry-run", Aliases: []string{"d"}},
				&cli.StringSliceFlag{Name: "extension", Aliases: []string{"e"}},
				&cli.StringFlag{Name: "target-dir"}}},
			{Name: "verify", Before: notExistArgs, Action: actionVerify, Flags: []cli.Flag{file,
				&cli.BoolFlag{Name: "massive"},
				&cli.StringFlag{Name: "target-dir"},
				&cli.BoolFlag{Name: "strict"}}},
		},
		ExitErrHandler: func(*cli.Context, error) {}, // keep ExitCoder errors from ending the test process
	}
}

// replayRun runs the CLI with args, feeding stdin and capturing what reaches os.Stdout / color.Output.
func replayRun(t *testing.T, stdin string, args ...string) (string, error) {
	t.Helper()
	inR, inW, _ := os.Pipe()
	outR, outW, _ := os.Pipe()
	oldIn, oldOut, oldColor := os.Stdin, os.Stdout, color.Output
	os.Stdin, os.Stdout, color.Output = inR, outW, outW
	go func() { io.WriteString(inW, stdin); inW.Close() }()
	done := make(chan string)
	go func() { b, _ := io.ReadAll(outR); done <- string(b) }()
	errc := make(chan error, 1)
	go func() { errc <- replayApp().Run(append([]string{"gtree"}, args...)) }()
	var err error
	select {
	case err = <-errc:
	case <-time.After(5 * time.Second):
		err = io.ErrNoProgress
	}
	outW.Close()
	out := <-done
	os.Stdin, os.Stdout, color.Output = oldIn, oldOut, oldColor
	return out, err
}

func replayTree(dir string) []string {
	var out []string
	filepath.Walk(dir, func(p string, info os.FileInfo, err error) error {
		if err != nil || p == dir {
			return nil
		}
		rel, _ := filepath.Rel(dir, p)
		if info.IsDir() {
			rel += "/"
		}
		out = append(out, rel)
		return nil
	})
	return out
}

// TestReplay_CLIWiring: each flag reaches the library as the option it stands for.
func TestReplay_CLIWiring(t *testing.T) {
	color.NoColor = true
	doc := "- a\n  - b.go\n  - c\n    - Makefile\n"
	// verify --strict --target-dir
	d := t.TempDir()
	os.MkdirAll(filepath.Join(d, "a", "b.go"), 0o755)
	os.MkdirAll(filepath.Join(d, "a", "c", "Makefile"), 0o755)
	os.MkdirAll(filepath.Join(d, "a", "extra"), 0o755)
	if _, err := replayRun(t, doc, "verify", "--target-dir", d); err != nil {
		t.Fatalf("REPLAY-FAIL main.actionVerify/post#wired input: verify --target-dir D (no --strict) with an extra entry under the root: returned %v", err)
	}
	for _, args := range [][]string{{"verify", "--strict", "--target-dir", d}, {"verify", "--target-dir", d, "--strict"}} {
		if _, err := replayRun(t, doc, args...); err == nil {
			t.Fatalf("REPLAY-FAIL main.actionVerify/post#wired input: %v with an extra entry under the root: returned nil", args)
		}
	}
	// mkdir --dry-run: creates nothing (not even the target directory) and counts files by the extensions given
	jail := t.TempDir()
	target := filepath.Join(jail, "missing", "target")
	out, err := replayRun(t, doc, "mkdir", "--dry-run", "-e", ".go", "-e", "Makefile", "--target-dir", target)
	if err != nil || len(replayTree(jail)) != 0 {
		t.Fatalf("REPLAY-FAIL main.actionMkdir/post#dryfs input: mkdir --dry-run --target-dir <missing>: err=%v, created %v", err, replayTree(jail))
	}
	var want bytes.Buffer
	gtree.OutputFromMarkdown(&want, strings.NewReader(doc), gtree.WithDryRun(), gtree.WithFileExtensions([]string{".go", "Makefile"}))
	if out != want.String() {
		t.Fatalf("REPLAY-FAIL main.actionMkdir/post#wired input: mkdir --dry-run -e .go -e Makefile: printed %q, the library with the same options prints %q", out, want.String())
	}
	// mkdir -e: kinds as the library makes them
	cliDir, libDir := t.TempDir(), t.TempDir()
	if _, err := replayRun(t, doc, "mkdir", "-e", ".go", "-e", "Makefile", "--target-dir", cliDir); err != nil {
		t.Fatalf("REPLAY-FAIL main.actionMkdir/post#wired input: mkdir -e .go -e Makefile: %v", err)
	}
	gtree.MkdirFromMarkdown(strings.NewReader(doc), gtree.WithFileExtensions([]string{".go", "Makefile"}), gtree.WithTargetDir(libDir))
	if strings.Join(replayTree(cliDir), " ") != strings.Join(replayTree(libDir), " ") {
		t.Fatalf("REPLAY-FAIL main.actionMkdir/post#wired input: mkdir -e .go -e Makefile: created %v, the library with the same options creates %v", replayTree(cliDir), replayTree(libDir))
	}
	// output: formats, --massive-timeout, --watch with stdin
	for _, c := range []struct {
		args []string
		opts []gtree.Option
		obl  string
	}{
		{[]string{"output"}, nil, "main.actionOutput/post#wired"},
		{[]string{"output", "--format", "json"}, []gtree.Option{gtree.WithEncodeJSON()}, "main.actionOutput/post#wired"},
		{[]string{"output", "--format", "yaml"}, []gtree.Option{gtree.WithEncodeYAML()}, "main.actionOutput/post#wired"},
		{[]string{"output", "--massive-timeout", "30s"}, nil, "main.actionOutput/post#live"},
		{[]string{"output", "--watch"}, nil, "main.actionOutput/post#stdin"},
		{[]string{"output", "-w", "-f", "-"}, nil, "main.actionOutput/post#stdin"},
	} {
		var want bytes.Buffer
		gtree.OutputFromMarkdown(&want, strings.NewReader(doc), c.opts...)
		out, err := replayRun(t, doc, c.args...)
		if err != nil || out != want.String() {
			t.Fatalf("REPLAY-FAIL %s input: %v with the document on stdin: err=%v, printed %q, the library prints %q", c.obl, c.args, err, out, want.String())
		}
	}
	// -f FILE: the file is read, not stdin
	{
		fdir := t.TempDir()
		fpath := filepath.Join(fdir, "in.md")
		os.WriteFile(fpath, []byte(doc), 0o644)
		var want bytes.Buffer
		gtree.OutputFromMarkdown(&want, strings.NewReader(doc))
		if out, err := replayRun(t, "- other\n", "output", "-f", fpath); err != nil || out != want.String() {
			t.Fatalf("REPLAY-FAIL main.actionOutput/post#reader input: output -f FILE with another document on stdin: err=%v, printed %q, the file's tree is %q", err, out, want.String())
		}
		mdir := t.TempDir()
		if _, err := replayRun(t, "- other\n", "mkdir", "-f", fpath, "--target-dir", mdir); err != nil || len(replayTree(mdir)) == 0 || replayTree(mdir)[0] != "a/" {
			t.Fatalf("REPLAY-FAIL main.actionMkdir/post#reader input: mkdir -f FILE with another document on stdin: err=%v, created %v (the file's root is a)", err, replayTree(mdir))
		}
		if _, err := replayRun(t, "- other\n", "verify", "-f", fpath, "--target-dir", mdir); err != nil {
			t.Fatalf("REPLAY-FAIL main.actionVerify/post#reader input: verify -f FILE (its tree was just created) with another document on stdin: %v", err)
		}
	}
	if _, err := replayRun(t, doc, "output", "--format", "xml"); err == nil {
		t.Fatalf("REPLAY-FAIL main.optionOutput/post#unknown input: output --format xml: returned nil")
	}
	t.Logf("REPLAY-OK CLI wiring")
}
