#!/usr/bin/env python3
# Regenerates /verif/MANIFEST.json from the table below.
import json, subprocess
props=[json.loads(l) for l in open('/verif/properties.jsonl')]
ids=[p['id'] for p in props]
TECH="contract-based deductive verification: own VC generator (gvc) over the typed Go AST of /repo, contracts in verif-tagged comment files, obligations discharged by z3 5.1.0 / z3 4.8.12 / cvc5 1.0"
claims={
 'C01': dict(cat='proof', text="From-Markdown text output: the grower (assembleBranch, assemble, grow), the text spreader (spreadBranch, spread), stack.dfs and the node predicates are proved against executable spec functions (specBranch, specRender) for every heap satisfying the forest invariant and every four-tuple of branch strings; lemmas raw=render by induction. Parser and generator loops are being brought under contract (see level_note).", note="iterator (iter.Pull2) path and the Markdown parser are not yet under contract: the claim covers the functions listed in the evidence file; writers are assumed to accept bytes (C14 is about failures)", ref='§8 C01'),
 'C02': dict(cat='proof', text="markdown.Parser.Parse and separateRow are proved against a declarative, executable row specification (specItemShape / specItemText / specDepth): a row is accepted iff a bullet follows a uniform indentation that agrees with the block's indent byte and is a whole multiple of the learnt unit, empty text gives the empty-text error, blank rows are skipped; handleErr maps format errors to an error carrying the offending row; generate returns errNilStack for an item before the first root; stack.dfs reports (and the generators turn into a format error with the row) an item nested more than one level deeper — the silent drop this obligation found was repaired (fix: commit); dfs never detaches a node (mono).", note="bufio.Scanner line splitting and strings.* are trusted contracts; 'every non-blank line is represented' is the conjunction of dfs/post#attached, dfs/post#mono and generate's invariants (the induction over lines is a meta-argument); massive mode and wasm generator not covered here", ref='§8 C02'),
 'C12': dict(cat='proof', text="Simple mode: every dereference, index, slice, type assertion, division and unsigned conversion in the functions reachable from the From-Markdown and From-Root text/walk entry points is a discharged safety obligation (under the forest invariant and the contracts of callers); the iterator route (generateIter, growIter, spreadIter closures over iter.Pull2) is verified with stream protocols (a yielded root is non-nil unless an error is yielded) — the nil root this found on empty input was repaired (fix: commit); loops and recursions with a decreases clause are proved terminating (trees: structural descent); blank-only input builds no node.", note="massive mode (goroutines) not covered: 'never hangs' there is C11; termination of tree recursions relies on a finite acyclic heap; bufio.Scanner delivers finitely many lines (trusted); mkdir/verify entry points not yet in the cone", ref='§8 C12'),
 'C14': dict(cat='proof', text="Writer: every printing function of the simple mode (spreadBranch, spread, assembleAndPrint, growAndSpread, treeSimple.output / outputProgrammably, the spreadIter closure through the stream finish condition) has the clause 'result == nil ==> no write was refused' over the trusted writer model — the four places that swallowed the error were repaired (fix: commit). Reader: generate returns the scanner's error whenever the scan failed.", note="fmt.Fprint and bufio.Scanner are trusted models (a write either appends all bytes or reports an error); JSON/YAML/TOML encoders, dry-run spread and the massive mode are not in this claim; reader-error forwarding through the iterator route is not stated", ref='§8 C14'),
 'C15': dict(cat='proof', text="Parse's postcondition is stated over the abstract content of a row: hierarchy == depth + 1 (+1 under # roots) with depth = indent / unit, text == the bytes after the bullet minus one separating space; neither depends on the indent byte, the unit or the bullet symbol; blank rows leave the parser state untouched and are skipped by the generator; heading rows give hierarchy 1 and the trimmed name. The three-symbol loop of separateRow is proved insensitive to bullet symbols inside the text (loop invariant 'tried').", note="CRLF / final newline rest on the trusted bufio.Scanner contract; equality of outputs across spellings follows from C01/C02 being functions of the (hierarchy, text) sequence (meta-argument); a lemma over an explicit mkRow constructor is not yet stated", ref='§8 C15'),
 'C03': dict(cat='proof', text="NewRoot/Add/validateTreeRoot and the From-Root text and walk entries (with their deprecated aliases, verified against the same shared contract) are proved: Add dedupes or appends one level deeper preserving the forest invariant; rejected roots return the sentinel errors before any effect; OutputFromRoot writes specRender of the root for the configuration's branch strings.", note="newConfig (applies caller-supplied option closures) is an assumed contract; massive mode implementations are assumed/not covered; JSON/YAML/TOML, mkdir and verify From-Root routes are not yet claimed", ref='§8 C03'),
 'C05': dict(cat='proof', text="walkNode/walk are proved to call the callback exactly on specPreorder (the order of the text lines) and never again after it returned an error (protocol precondition at every call site), returning that error unchanged; WalkerNode accessors are proved against the node's fields; WalkFromRoot establishes grown() before the first callback and keeps it (empty frame on node fields).", note="iterator forms (WalkIterFromRoot, iter.Pull2) not yet under contract; prefix property of the trace on failure not stated; Path only for the stored value", ref='§8 C05'),
 'C13': dict(cat='proof', text="Every public operation under contract preserves the forest invariant and its result is stated through spec functions that read only names, hierarchy, parent and children (never Node.index, idxCounter or the cached branch): results are functions of shape and names for all sequential histories, by induction on history length. The index-collision defect found by this obligation was repaired (fix: commit).", note="sequential histories only; concurrent use is not modelled", ref='§8 C13'),
}
na={
 'C10':"equivalence of massive and simple mode is a property of goroutine schedules (ten workers per stage sharing one parser); sequential function contracts cannot express interleavings and the self-written generator has no concurrency logic",
 'C11':"termination, goroutine-leak freedom and race freedom over all schedules and cancellation instants are liveness/interleaving properties outside contract-based sequential verification",
}
checks=[]
for i in ids:
    if i in claims:
        c=claims[i]
        checks.append({"property_id":i,"quick_cmd":"/verif/check %s quick"%i,"thorough_cmd":"/verif/check %s thorough"%i,
          "evidence_file":"/verif/evidence/%s.json"%i,"replay_cmd_template":"/verif/check --replay {path}","engine":"gvc",
          "level_claimed":{"category":c['cat'],"text":c['text'],"design_ref":c['ref']},"level_note":c['note'],"technique":TECH})
notapp=[]
for i in ids:
    if i not in claims:
        notapp.append({"property_id":i,"reason":na.get(i,"check not built yet in this round (build in progress); see DESIGN.md §8 for the plan")})
hooks=subprocess.run(['git','-C','/repo','log','--format=%h %s','d99ef3c..HEAD'],capture_output=True,text=True).stdout.strip().split('\n')
m={"version":1,
 "setup_cmd":"cd /verif/gvc && GOFLAGS=-mod=vendor GOPROXY=off go build -o /verif/bin/gvc ./cmd/gvc",
 "hooks":{"guard":"verif","enable":"contract files /repo/verif_contracts*.go and /repo/*/verif_contracts.go are compiled only with -tags verif; gvc loads /repo with that tag",
   "baseline_off_cmd":"cd /repo && GOFLAGS=-mod=mod GOPROXY=off go test -json -vet=off -count=1 -timeout 25m ./...",
   "source_commits":[h for h in hooks if h and not h.split(' ',1)[1].startswith('fix:')],"add_only":True},
 "engines":[{"name":"gvc","path":"/verif/gvc","serves_properties":[c['property_id'] for c in checks],"kind_free_text":TECH}],
 "checks":checks,
 "notes":"fix: commits in /repo: "+"; ".join(h for h in hooks if h and h.split(' ',1)[1].startswith('fix:')),
 "not_applicable":notapp}
json.dump(m,open('/verif/MANIFEST.json','w'),indent=1)
print(len(checks),'checks,',len(notapp),'not applicable')
