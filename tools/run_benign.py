#!/usr/bin/env python3
"""False-alarm test (fast form: `gvc all`): apply each behaviour-preserving change under /verif/benign/R*/patch.diff to a scratch clone of /repo,
run every property's quick check on it and expect exit 0 and no VIOLATION line. Works on copies (clone of /repo and
copy of /verif under /tmp) so that neither /repo nor /verif/evidence is touched. Usage: run_benign.py [R01 ...]"""
import json, os, subprocess, sys, glob, shutil
CLONE='/tmp/benign_repo'; VC='/tmp/benign_verif'
ENV=dict(os.environ, GOFLAGS='-mod=mod', GOPROXY='off')
def sh(cmd, cwd=None, timeout=3600):
    p=subprocess.run(cmd, shell=True, cwd=cwd, env=ENV, capture_output=True, text=True, timeout=timeout)
    return p.returncode, p.stdout+p.stderr
sh('rm -rf %s %s && git clone -q /repo %s && rsync -a --exclude .git --exclude /gvc/vendor --exclude /seeded --exclude /replays /verif/ %s/'%(CLONE,VC,CLONE,VC))
props=[c['property_id'] for c in json.load(open('/verif/MANIFEST.json'))['checks']]
names=sys.argv[1:] or sorted(os.path.basename(p) for p in glob.glob('/verif/benign/R*'))
res={}
for n in names:
    d='/verif/benign/'+n
    rc,out=sh('git apply '+d+'/patch.diff', cwd=CLONE)
    if rc!=0:
        print(n,'PATCH DOES NOT APPLY',out); continue
    brc,_=sh('go build . ./markdown ./cmd/gtree && go build -tags tinywasm .', cwd=CLONE)
    alarms=[]
    # one pass over every unit under contract (both build variants) against the union of the obligation baselines:
    # the same verdict as the fifteen property checks, at a fraction of the cost
    crc,cout=sh('%s/bin/gvc all -repo %s -verif %s'%(VC,CLONE,VC), cwd=VC)
    v=[l for l in cout.split('\n') if l.startswith('ALARM') or l.startswith('TOOL-ERROR')]
    if crc!=0 or v: alarms.append({'exit':crc,'lines':[l[:400] for l in v[:10]]})
    sh('git checkout -- . && git clean -fdq', cwd=CLONE)
    res[n]={'builds':brc==0,'alarms':alarms}
    print(n,'builds' if brc==0 else 'BUILD FAILS','ALARMS: '+json.dumps(alarms) if alarms else 'no alarm',flush=True)
json.dump(res,open('/verif/benign/results.json','w'),indent=1)
shutil.rmtree(CLONE); shutil.rmtree(VC)
