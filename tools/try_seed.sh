#!/bin/bash
# try_seed.sh <dir-with-patch.diff-and-demo> <PROP> [more props...] : apply a seeded change to /repo, run the demo and the checks, undo it.
set -u
D="$1"; shift
cd /repo || exit 2
git status --short | grep -v '^??' && { echo "/repo not clean"; exit 2; }
DEMO=$(ls $D/demo_test.go $D/demo*_test.go 2>/dev/null | head -1)
echo "== demo on pristine tree"
if [ -n "$DEMO" ]; then cp "$DEMO" /repo/zz_demo_test.go; (GOFLAGS=-mod=mod GOPROXY=off go test -vet=off -count=1 -run 'TestDemo' . 2>&1 | tail -3); fi
echo "== apply patch"
git apply "$D/patch.diff" || { rm -f /repo/zz_demo_test.go; echo "PATCH DOES NOT APPLY"; exit 2; }
GOFLAGS=-mod=mod GOPROXY=off go build . ./markdown ./cmd/gtree && echo "builds" || echo "BUILD FAILS"
echo "== demo with patch"
if [ -n "$DEMO" ]; then (GOFLAGS=-mod=mod GOPROXY=off go test -vet=off -count=1 -run 'TestDemo' . 2>&1 | tail -4); fi
rm -f /repo/zz_demo_test.go
echo "== stable tests with patch"
GOFLAGS=-mod=mod GOPROXY=off go test -json -vet=off -count=1 -timeout 20m ./... 2>/dev/null > /tmp/seed_tests.json
python3 - <<'PY'
import json
b=json.load(open('/root/.vp/BASELINE.json')); stable=set(b['stable_pass']); res={}
for l in open('/tmp/seed_tests.json'):
    try: e=json.loads(l)
    except: continue
    if e.get('Test') and e.get('Action') in('pass','fail','skip'): res[e['Package']+'::'+e['Test']]=e['Action']
print('stable not passing:',[t for t in stable if res.get(t)!='pass'])
PY
git status --short | grep -v "^ M" | grep -v '^??' 
echo "== checks"
for P in "$@"; do (cd /verif && ./check $P quick 2>&1 | grep "VIOLATION\|^property" | cut -c1-400); done
git checkout -- . ; git clean -fdq -e 'root*' 2>/dev/null; git status --short | grep -v '^??'
echo "== reverted"
