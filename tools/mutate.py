#!/usr/bin/env python3
"""Tiny mutation sweep: single-token mutants and single-statement deletions of the production files, judged by
`gvc all` (whole repository, both build variants, against the obligation baselines); a mutant inside a function under
contract is first tried against that function alone (a failure there is a kill, found in seconds).
Usage: mutate.py <worker-index> <n-workers> <sample-size> <seed> [ops: all|token|delete]"""
import re, os, sys, random, subprocess, json, shutil
W,N,K,SEED=int(sys.argv[1]),int(sys.argv[2]),int(sys.argv[3]),int(sys.argv[4])
OPS=sys.argv[5] if len(sys.argv)>5 else 'all'
REPO='/repo'
# the verifier is used from a snapshot so that work going on in /verif (relocks, new trusted clauses) cannot disturb a run
VERIF=os.environ.get('MUT_VERIF','/verif')
SKIP=set()
if os.path.exists('/tmp/mt/skip.json'): SKIP=set(tuple(x) for x in json.load(open('/tmp/mt/skip.json')))
ENV=dict(os.environ, GOFLAGS='-mod=mod', GOPROXY='off')
files=[f for f in subprocess.run("git ls-files '*.go'",shell=True,cwd=REPO,capture_output=True,text=True).stdout.split()
       if not f.endswith('_test.go') and 'verif_' not in f and not f.startswith('cmd/gtree-wasm') and not f.startswith('testutil') and 'example' not in f and f not in ('cmd/gtree/web.go','cmd/gtree/template.go')]
ops=[(r' == ',' != '),(r' != ',' == '),(r' < ',' <= '),(r' <= ',' < '),(r' > ',' >= '),(r' >= ',' > '),(r' && ',' || '),(r' \|\| ',' && '),
     (r'\bif !',r'if '),(r'\breturn err\b','return nil'),(r' \+ 1\b',' - 1'),(r' - 1\b',' + 1'),(r'\btrue\b','false'),(r'\bfalse\b','true'),
     (r'\bcontinue\b','break'),(r'\+= ',' = ')]
muts=[]
LOCKFUNCS=set()
for l in open(VERIF+'/obligations.lock'):
    for m in re.finditer(r'"(?:tinywasm:)?([\w\.\[\]#]+?)/',l): LOCKFUNCS.add(m.group(1))
for f in files:
    lines=open(os.path.join(REPO,f)).read().split('\n')
    infunc=False
    for i,l in enumerate(lines):
        s=l.strip()
        if s.startswith('//') or s.startswith('import') or s.startswith('"') or s.startswith('package') or 'Usage:' in l or 'Name:' in l or 'Aliases' in l: continue
        code=l.split('//')[0]
        # statement deletion: a call statement, a defer, or a plain assignment on one line
        if OPS in('all','delete') and l.startswith('\t') and re.match(r'^(defer .*\)|[\w\.\[\]\*]+\(.*\)|[\w\.\[\]]+ (=|\+=) [^{]*|[\w\.]+\+\+)$',s) and not s.startswith('return') and not s.startswith('func'):
            muts.append((f,i,0,len(l),'','DELETE'))
        if OPS=='delete': continue
        for pat,rep in ops:
            for m in re.finditer(pat,code):
                # skip matches inside string literals (rough)
                if code[:m.start()].count('"')%2==1 or code[:m.start()].count('`')%2==1: continue
                muts.append((f,i,m.start(),m.end(),rep.replace('\\b','') if '\\' not in rep else re.sub(pat,rep,m.group(0)),pat))
random.Random(SEED).shuffle(muts)
muts=muts[:K]
mine=[m for j,m in enumerate(muts) if j%N==W]
work='/tmp/mt/w%d'%W
subprocess.run('rm -rf %s && rsync -a --exclude .git --exclude "/root*/" --exclude /gtreetest/ %s/ %s/'%(work,REPO,work),shell=True)
out=open('/tmp/mt/result_%d.jsonl'%W,'w')
for f,i,a,b,rep,pat in mine:
    path=os.path.join(work,f)
    orig=open(path).read()
    lines=orig.split('\n')
    newline=lines[i][:a]+ (re.sub(pat,rep,lines[i][a:b]) if '\\' in rep else rep) + lines[i][b:] if pat!='DELETE' else '\t// (deleted)'
    if newline==lines[i] or (f,i+1,newline.strip()) in SKIP: continue
    ml=lines[:]; ml[i]=newline
    open(path,'w').write('\n'.join(ml))
    rec={'file':f,'line':i+1,'from':lines[i].strip(),'to':newline.strip()}
    b1=subprocess.run('go build . ./markdown ./cmd/gtree && go build -tags tinywasm .',shell=True,cwd=work,env=ENV,capture_output=True,text=True)
    if b1.returncode!=0:
        rec['verdict']='does-not-compile'
    else:
        # enclosing function; if it is under contract, try it alone first
        fn=None
        for j in range(i,-1,-1):
            m=re.match(r'^func (?:\((?:\w+ )?\*?(\w+)(?:\[[^\]]*\])?\) )?(\w+)',lines[j])
            if m: fn=(m.group(1)+'.' if m.group(1) else '')+m.group(2); break
        pkg='markdown.' if f.startswith('markdown/') else 'main.' if f.startswith('cmd/gtree/') else 'gtree.'
        tags='tinywasm,verif' if f.startswith('wasm_') else 'verif'
        alarms=[]; r=None
        if fn:
            keys=sorted(k for k in LOCKFUNCS if k==pkg+fn or k.startswith(pkg+fn+'#') or k.startswith(pkg+fn+'['))
            if keys:
                q=subprocess.run("%s/bin/gvc -repo %s -tags %s -trusted %s/gvc/trusted -funcs '%s'"%(VERIF,work,tags,VERIF,','.join(keys)),shell=True,cwd=VERIF,env=ENV,capture_output=True,text=True)
                alarms=['ALARM (function alone) '+l[5:] for l in (q.stdout+q.stderr).split('\n') if l.startswith('FAIL') and 'gtree.treeSimple.mkdir/post#dryrun' not in l]
        if not alarms:
            r=subprocess.run('%s/bin/gvc all -repo %s -verif %s'%(VERIF,work,VERIF),shell=True,cwd=VERIF,env=ENV,capture_output=True,text=True)
            alarms=[l for l in (r.stdout+r.stderr).split('\n') if l.startswith('ALARM') or l.startswith('TOOL-ERROR')]
        rec['verdict']='killed' if ((r is not None and r.returncode!=0) or alarms) else 'SURVIVED'
        rec['alarms']=[a[:160] for a in alarms[:3]]
    open(path,'w').write(orig)
    out.write(json.dumps(rec)+'\n'); out.flush()
    print(rec['verdict'],f,i+1,rec['to'][:80],flush=True)
