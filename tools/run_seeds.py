#!/usr/bin/env python3
"""Re-evaluate the seeded changes under /verif/seeded: for each one apply patch.diff to /repo, run its demonstration
(with and without the change), the stable test suite and the check of its property, undo the change, and record
the outcome in meta.json. Usage: run_seeds.py [seed-dir-name ...]  (default: all)"""
import json, os, subprocess, sys, re, glob
REPO=os.environ.get('SEED_REPO','/repo')
SEED_DIR=os.environ.get('SEED_DIR','/verif/seeded')
# SEED_VERIF: the verifier to use (default /verif; a snapshot copy keeps a long run independent of work going on in /verif)
VERIF=os.environ.get('SEED_VERIF','/verif')
ENV=dict(os.environ, GOFLAGS='-mod=mod', GOPROXY='off', VERIF_REPO=REPO)
def sh(cmd, cwd=REPO, timeout=1800):
    p=subprocess.run(cmd, shell=True, cwd=cwd, env=ENV, capture_output=True, text=True, timeout=timeout)
    return p.returncode, (p.stdout+p.stderr)
def stable_ok():
    rc,out=sh("go test -json -vet=off -count=1 -timeout 20m ./... 2>/dev/null")
    b=json.load(open('/root/.vp/BASELINE.json')); stable=set(b['stable_pass']); res={}
    for l in out.split('\n'):
        try: e=json.loads(l)
        except Exception: continue
        if e.get('Test') and e.get('Action') in('pass','fail','skip'): res[e['Package']+'::'+e['Test']]=e['Action']
    return [t for t in stable if res.get(t)!='pass']
def run_demo(meta, d):
    demo=os.path.join(d, meta.get('demo','demo_test.go'))
    dst=os.path.join(REPO, meta.get('demo_dir','.'), 'zz_demo_test.go')
    subprocess.run(['cp',demo,dst])
    if meta.get('demo_cmd'):
        rc,out=sh(meta['demo_cmd'])   # e.g. the tinywasm variant needs an explicit file list
    else:
        rc,out=sh("go test -vet=off -count=1 -timeout 10m -run '%s' ./%s"%(meta['demo_run'], meta.get('demo_dir','.')))
    os.remove(dst)
    return rc, out[-1500:]
names=sys.argv[1:] or sorted(os.path.basename(p) for p in glob.glob(SEED_DIR+'/*') if os.path.isdir(p))
assert sh("git status --porcelain --untracked-files=no")[1].strip()=='' , REPO+' is not clean'
for n in names:
    d=SEED_DIR+'/'+n
    meta=json.load(open(d+'/meta.json'))
    prop=meta['property']
    print('=====',n,prop,flush=True)
    rc0,out0=run_demo(meta,d)
    rc,out=sh("git apply "+d+"/patch.diff")
    if rc!=0:
        print('PATCH DOES NOT APPLY',out); continue
    try:
        brc,bout=sh("go build . ./markdown ./cmd/gtree && go build -tags tinywasm .")
        rc1,out1=run_demo(meta,d)
        bad=stable_ok()
        crc,cout=sh("%s/bin/gvc check -prop %s -tier quick -repo %s -verif %s"%(VERIF,prop,REPO,VERIF), cwd=VERIF)
        viol=[l for l in cout.split('\n') if l.startswith('VIOLATION')]
        also={}
        for q in meta.get('also_check',[]):
            qrc,qout=sh("%s/bin/gvc check -prop %s -tier quick -repo %s -verif %s"%(VERIF,q,REPO,VERIF), cwd=VERIF)
            also[q]=sorted(set(re.search(r'obligation=(\S+)',l).group(1) for l in qout.split('\n') if l.startswith('VIOLATION')))
        if also: meta['also_violated']=also
    finally:
        sh("git checkout -- . && git clean -fdq -e 'root*' -e gtreetest")
    obl=[re.search(r'obligation=(\S+)',v).group(1) for v in viol]
    withinput=[re.search(r'obligation=(\S+)',v).group(1) for v in viol if 'no-failing-input-found' not in v]
    meta['what_i_ran']={'demo_on_pristine':'PASS' if rc0==0 else 'FAIL','builds_with_change':brc==0,'demo_with_change':'FAIL' if rc1!=0 else 'PASS',
        'stable_tests_not_passing_with_change':bad,'check_cmd':'/verif/check %s quick'%prop,'check_exit':crc,
        'violated_obligations':obl,'obligations_with_replayed_failing_input':withinput}
    meta['caught']= crc==1 and len(viol)>0
    json.dump(meta,open(d+'/meta.json','w'),indent=1,ensure_ascii=False)
    print(' demo pristine:',meta['what_i_ran']['demo_on_pristine'],' with change:',meta['what_i_ran']['demo_with_change'],' stable broken:',bad,' caught:',meta['caught'],obl[:3],flush=True)
