package gvc

import (
	"fmt"
	"go/constant"
	"go/types"
	"strconv"
	"strings"

	"golang.org/x/tools/go/packages"
)

// CEnv is the environment in which a contract expression is translated.
type CEnv struct {
	X     *Exec
	Names map[string]*Val
	St    *St
	Old   *CEnv
	Pkg   *packages.Package
	Bound map[string]*Val
	Reads map[string]bool
	Fuel  *Term
	Hyp   bool // translating a formula that will be assumed: quantifiers range over the fuel of recursive spec functions too
}

// HypFormula translates e as a hypothesis.
func (c *CEnv) HypFormula(e *CExpr) *Term {
	h := *c
	h.Hyp = true
	if c.Old != nil {
		o := *c.Old
		o.Hyp = true
		h.Old = &o
	}
	return h.Formula(e)
}

type ctransErr struct{ msg string }

func cfail(format string, a ...any) { panic(ctransErr{fmt.Sprintf(format, a...)}) }

func (c *CEnv) withBound(vs map[string]*Val) *CEnv {
	n := *c
	n.Bound = map[string]*Val{}
	for k, v := range c.Bound {
		n.Bound[k] = v
	}
	for k, v := range vs {
		n.Bound[k] = v
	}
	if c.Old != nil {
		o := *c.Old
		o.Bound = n.Bound
		n.Old = &o
	}
	return &n
}

// Formula translates e and requires a Bool result.
func (c *CEnv) Formula(e *CExpr) *Term {
	v := c.tr(e)
	if v.T == nil || v.T.Sort != SBool {
		cfail("expected a formula: %s", e)
	}
	return v.T
}

func (c *CEnv) w() *World { return c.X.W }

func (c *CEnv) tr(e *CExpr) *Val {
	switch e.Kind {
	case "int":
		n, _ := strconv.ParseInt(e.Op, 10, 64)
		return &Val{T: IntLit(n), Ty: types.Typ[types.Int]}
	case "str":
		return &Val{T: StrLit(e.Op), Ty: types.Typ[types.String]}
	case "char":
		return &Val{T: IntLit(int64(e.Op[0])), Ty: types.Typ[types.Uint8]}
	case "bool":
		if e.Op == "true" {
			return &Val{T: True, Ty: types.Typ[types.Bool]}
		}
		return &Val{T: False, Ty: types.Typ[types.Bool]}
	case "nil":
		return &Val{T: Null, Ty: types.Typ[types.UntypedNil]}
	case "ident":
		return c.ident(e.Op)
	case "sel":
		// qualified global: pkg.Name
		if e.Args[0].Kind == "ident" {
			if _, isVar := c.lookupName(e.Args[0].Op); !isVar {
				if p := c.importNamed(e.Args[0].Op); p != nil {
					if o := p.Types.Scope().Lookup(e.Op); o != nil {
						return c.objVal(o)
					}
					cfail("unknown %s.%s", e.Args[0].Op, e.Op)
				}
			}
		}
		base := c.tr(e.Args[0])
		return c.X.selectField(c.St, base, e.Op, c.Reads, nil)
	case "index":
		a := c.tr(e.Args[0])
		i := c.tr(e.Args[1])
		if a.T == nil {
			cfail("cannot index %s", e.Args[0])
		}
		if a.T.Sort == SSetStr {
			return &Val{T: Select(a.T, i.T), Ty: types.Typ[types.Bool]}
		}
		if a.T.Sort.IsArr() {
			var vt types.Type
			if m, ok := a.Ty.(*types.Map); ok {
				vt = m.Elem()
			}
			return &Val{T: Select(a.T, i.T), Ty: vt}
		}
		if !a.T.Sort.IsSeq() {
			cfail("cannot index non-sequence %s", e.Args[0])
		}
		return &Val{T: SeqAt(a.T, i.T), Ty: elemType(a.Ty)}
	case "slice":
		a := c.tr(e.Args[0])
		t := a.T
		if e.Args[2] != nil {
			t = SeqTake(t, c.tr(e.Args[2]).T)
		}
		if e.Args[1] != nil {
			t = SeqDrop(t, c.tr(e.Args[1]).T)
		}
		return &Val{T: t, Ty: a.Ty}
	case "unop":
		a := c.tr(e.Args[0])
		if e.Op == "!" {
			return &Val{T: Not(a.T), Ty: a.Ty}
		}
		return &Val{T: Arith("-", IntLit(0), a.T), Ty: a.Ty}
	case "cond":
		cnd := c.tr(e.Args[0])
		a, b := c.tr(e.Args[1]), c.tr(e.Args[2])
		a, b = unifyNil(a, b)
		return &Val{T: Ite(cnd.T, a.T, b.T), Ty: a.Ty}
	case "binop":
		return c.binop(e)
	case "quant":
		return c.quant(e)
	case "call":
		return c.call(e)
	}
	cfail("unsupported contract expression %s", e)
	return nil
}

func unifyNil(a, b *Val) (*Val, *Val) {
	if a.T != nil && b.T != nil && a.T.Sort != b.T.Sort {
		// nil against a sequence: the empty sequence
		if a.T.Op == "null" && b.T.Sort.IsSeq() {
			return &Val{T: SeqEmpty(b.T.Sort), Ty: b.Ty}, b
		}
		if b.T.Op == "null" && a.T.Sort.IsSeq() {
			return a, &Val{T: SeqEmpty(a.T.Sort), Ty: a.Ty}
		}
	}
	return a, b
}

func elemType(t types.Type) types.Type {
	if t == nil {
		return nil
	}
	switch u := t.Underlying().(type) {
	case *types.Slice:
		return u.Elem()
	case *types.Basic:
		if u.Info()&types.IsString != 0 {
			return types.Typ[types.Uint8]
		}
	}
	return nil
}

func (c *CEnv) lookupName(name string) (*Val, bool) {
	if v, ok := c.Bound[name]; ok {
		return v, true
	}
	if v, ok := c.Names[name]; ok {
		return v, true
	}
	return nil, false
}

func (c *CEnv) importNamed(name string) *packages.Package {
	if c.Pkg == nil {
		return nil
	}
	for _, p := range c.Pkg.Imports {
		if p.Name == name {
			return p
		}
	}
	// import aliases: scan files
	for _, f := range c.Pkg.Syntax {
		for _, im := range f.Imports {
			if im.Name != nil && im.Name.Name == name {
				path, _ := strconv.Unquote(im.Path.Value)
				if p, ok := c.Pkg.Imports[path]; ok {
					return p
				}
			}
		}
	}
	// any loaded package of that name (trusted specs are not tied to a package)
	for _, p := range c.w().Pkgs {
		if p.Name == name {
			return p
		}
	}
	return nil
}

func (c *CEnv) ident(name string) *Val {
	if v, ok := c.lookupName(name); ok {
		return v
	}
	if g, ok := c.w().GhostVars[name]; ok {
		if c.Reads != nil {
			c.Reads[g.Key] = true
		}
		return &Val{T: c.St.field(g), Ty: g.Ty}
	}
	if c.Pkg != nil && c.Pkg.Types != nil {
		if o := c.Pkg.Types.Scope().Lookup(name); o != nil {
			return c.objVal(o)
		}
	}
	for _, p := range c.w().Main {
		if o := p.Types.Scope().Lookup(name); o != nil {
			if _, ok := o.(*types.TypeName); !ok {
				return c.objVal(o)
			}
		}
	}
	cfail("unknown identifier %s", name)
	return nil
}

func (c *CEnv) objVal(o types.Object) *Val {
	switch ob := o.(type) {
	case *types.Const:
		return constVal(ob.Val(), ob.Type())
	case *types.Var:
		return c.X.globalVal(ob)
	}
	cfail("%s is not a value", o.Name())
	return nil
}

func constVal(v constant.Value, ty types.Type) *Val {
	switch v.Kind() {
	case constant.Bool:
		if constant.BoolVal(v) {
			return &Val{T: True, Ty: ty}
		}
		return &Val{T: False, Ty: ty}
	case constant.String:
		return &Val{T: StrLit(constant.StringVal(v)), Ty: ty}
	case constant.Int:
		n, ok := constant.Int64Val(v)
		if !ok {
			cfail("constant out of range")
		}
		return &Val{T: IntLit(n), Ty: ty}
	}
	cfail("unsupported constant kind")
	return nil
}

func (c *CEnv) binop(e *CExpr) *Val {
	boolTy := types.Typ[types.Bool]
	switch e.Op {
	case "&&":
		return &Val{T: And(c.Formula(e.Args[0]), c.Formula(e.Args[1])), Ty: boolTy}
	case "||":
		return &Val{T: Or(c.Formula(e.Args[0]), c.Formula(e.Args[1])), Ty: boolTy}
	case "==>":
		return &Val{T: Implies(c.Formula(e.Args[0]), c.Formula(e.Args[1])), Ty: boolTy}
	case "<==>":
		return &Val{T: Iff(c.Formula(e.Args[0]), c.Formula(e.Args[1])), Ty: boolTy}
	}
	a, b := c.tr(e.Args[0]), c.tr(e.Args[1])
	a, b = unifyNil(a, b)
	if e.Op != "==" && e.Op != "!=" && (a == nil || b == nil || a.T == nil || b.T == nil) {
		cfail("operand of %s has no value the clause can talk about (a variable of an unsupported type?) in %s", e.Op, e)
	}
	switch e.Op {
	case "==", "!=":
		t := c.X.valEq(c.St, a, b)
		if e.Op == "!=" {
			t = Not(t)
		}
		return &Val{T: t, Ty: boolTy}
	case "<", "<=", ">", ">=":
		return &Val{T: Cmp(e.Op, a.T, b.T), Ty: boolTy}
	case "++":
		if !a.T.Sort.IsSeq() {
			cfail("++ on non-sequence in %s", e)
		}
		return &Val{T: SeqCat(a.T, b.T), Ty: a.Ty}
	case "+":
		if a.T.Sort.IsSeq() {
			return &Val{T: SeqCat(a.T, b.T), Ty: a.Ty}
		}
		return &Val{T: Arith("+", a.T, b.T), Ty: a.Ty}
	case "-", "*":
		return &Val{T: Arith(e.Op, a.T, b.T), Ty: a.Ty}
	case "/":
		return &Val{T: mk("div", SInt, a.T, b.T), Ty: a.Ty}
	case "%":
		return &Val{T: mk("mod", SInt, a.T, b.T), Ty: a.Ty}
	}
	cfail("unsupported operator %s", e.Op)
	return nil
}

func (c *CEnv) quant(e *CExpr) *Val {
	vs := map[string]*Val{}
	var vars []*Term
	var guards []*Term
	for _, v := range e.Vars {
		ty, ok := c.w().parseTypeText(v.Type, c.Pkg)
		if !ok {
			cfail("unknown type %s of bound variable %s", v.Type, v.Name)
		}
		if _, isStruct := ty.Underlying().(*types.Struct); isStruct {
			ty = types.NewPointer(ty) // a bare struct type name ranges over references to it
		}
		s, ok := c.w().SortOf(ty)
		if !ok {
			cfail("unsupported type %s of bound variable %s", v.Type, v.Name)
		}
		t := Var(v.Name+"$"+strconv.Itoa(c.X.nextID()), s)
		vars = append(vars, t)
		vs[v.Name] = &Val{T: t, Ty: ty}
		if isUnsigned(ty) {
			guards = append(guards, Cmp(">=", t, IntLit(0)))
		}
	}
	in := c.withBound(vs)
	var fuelVar *Term
	if c.Hyp && e.Op == "forall" && len(e.Trig) > 0 {
		fuelVar = Var("fu$"+strconv.Itoa(c.X.nextID()), SFuel)
		in.Fuel = fuelVar
		if in.Old != nil {
			in.Old.Fuel = fuelVar
		}
	}
	body := in.Formula(e.Args[0])
	var pats [][]*Term
	var wits []*Term
	for _, tg := range e.Trig {
		var p []*Term
		isWitness := false
		for _, te := range tg {
			if te.Kind == "call" && te.Op == "witness" && len(te.Args) == 1 {
				// {witness(e)}: a hint for proving this existential; evaluated outside the binder, ignored if it does not resolve
				isWitness = true
				func() {
					defer func() {
						if r := recover(); r != nil {
							if _, ok := r.(ctransErr); !ok {
								panic(r)
							}
						}
					}()
					wits = append(wits, c.tr(te.Args[0]).T)
				}()
				continue
			}
			p = append(p, in.tr(te).T)
		}
		if !isWitness {
			pats = append(pats, p)
		}
	}
	boolTy := types.Typ[types.Bool]
	if fuelVar != nil {
		used := false
		for _, p := range pats {
			for _, pt := range p {
				syms := map[string]Sort{}
				pt.Collect(map[string]bool{}, syms, map[string]bool{})
				if _, ok := syms[fuelVar.Op]; ok {
					used = true
				}
			}
		}
		if used {
			vars = append(vars, fuelVar)
		} else {
			// the fuel variable does not occur in a pattern: fall back to the default fuel
			m := map[string]*Term{fuelVar.Op: baseFuel}
			body = body.Subst(m)
		}
	}
	if e.Op == "forall" {
		return &Val{T: Forall(vars, pats, Implies(And(guards...), body), "q."+vars[0].Op), Ty: boolTy}
	}
	ex := Exists(vars, pats, And(append(guards, body)...), "q."+vars[0].Op)
	if len(wits) == len(vars) && ex.Op == "exists" {
		ok := true
		for i := range wits {
			if wits[i] == nil || wits[i].Sort != vars[i].Sort {
				ok = false
			}
		}
		if ok {
			ex.Wit = wits
		}
	}
	return &Val{T: ex, Ty: boolTy}
}

func (c *CEnv) call(e *CExpr) *Val {
	w := c.w()
	boolTy := types.Typ[types.Bool]
	intTy := types.Typ[types.Int]
	arg := func(i int) *Val {
		if i >= len(e.Args) {
			cfail("%s: missing argument %d", e.Op, i)
		}
		return c.tr(e.Args[i])
	}
	if i := strings.Index(e.Op, "."); i >= 0 {
		// qualified spec function / predicate / logic function: alias.name
		alias, name := e.Op[:i], e.Op[i+1:]
		if p := c.importNamed(alias); p != nil {
			if _, ok := w.Specs[p.Name+"."+name]; ok {
				q := *e
				q.Op = name
				in := *c
				in.Pkg = p
				return in.callIn(&q, c)
			}
			q := *e
			q.Op = name
			return c.call(&q)
		}
	}
	switch e.Op {
	case "old":
		if c.Old == nil {
			cfail("old() not available here: %s", e)
		}
		o := *c.Old
		o.Bound = c.Bound
		o.Reads = c.Reads
		o.Fuel = c.Fuel
		o.Hyp = c.Hyp
		return o.tr(e.Args[0])
	case "len":
		a := arg(0)
		if a.T == nil || !a.T.Sort.IsSeq() {
			cfail("len of non-sequence %s", e.Args[0])
		}
		return &Val{T: SeqLen(a.T), Ty: intTy}
	case "take":
		a := arg(0)
		return &Val{T: SeqTake(a.T, arg(1).T), Ty: a.Ty}
	case "drop":
		a := arg(0)
		return &Val{T: SeqDrop(a.T, arg(1).T), Ty: a.Ty}
	case "contains":
		a := arg(0)
		return &Val{T: SeqContains(a.T, arg(1).T), Ty: boolTy}
	case "push":
		a := arg(0)
		return &Val{T: SeqPush(a.T, arg(1).T), Ty: a.Ty}
	case "last":
		a := arg(0)
		return &Val{T: SeqAt(a.T, Arith("-", SeqLen(a.T), IntLit(1))), Ty: elemType(a.Ty)}
	case "unitstr":
		return &Val{T: SeqUnit(SStr, arg(0).T), Ty: types.Typ[types.String]}
	case "seqof":
		// seqof(a, b, ...) : sequence literal of the arguments
		if len(e.Args) == 0 {
			cfail("seqof needs arguments")
		}
		first := arg(0)
		ss, ok := SeqOf(first.T.Sort)
		if !ok {
			cfail("seqof: unsupported element sort")
		}
		t := SeqUnit(ss, first.T)
		for i := 1; i < len(e.Args); i++ {
			t = SeqPush(t, arg(i).T)
		}
		return &Val{T: t, Ty: types.NewSlice(first.Ty)}
	case "emptyseq":
		// emptyseq(x): the empty sequence of the type of x
		a := arg(0)
		return &Val{T: SeqEmpty(a.T.Sort), Ty: a.Ty}
	case "fresh":
		a := arg(0)
		if c.Old == nil {
			cfail("fresh() needs a pre-state")
		}
		return &Val{T: And(Not(Select(c.Old.St.alloc(), a.T)), Select(c.St.alloc(), a.T), Neq(a.T, Null)), Ty: boolTy}
	case "chanClosed":
		// chanClosed(ch): close(ch) has been executed (by the function that made ch, or one of its closures)
		a := arg(0)
		return &Val{T: Select(c.St.field(chanClosedField), a.T), Ty: boolTy}
	case "allocated":
		a := arg(0)
		return &Val{T: Select(c.St.alloc(), a.T), Ty: boolTy}
	case "isType":
		// isType(x, T)
		a := arg(0)
		if len(e.Args) != 2 {
			cfail("isType(x, T)")
		}
		ty, ok := w.parseTypeText(e.Args[1].String(), c.Pkg)
		if !ok {
			cfail("isType: unknown type %s", e.Args[1])
		}
		return &Val{T: Eq(mk("typeOf", SType, a.T), w.TypeConst(ty)), Ty: boolTy}
	case "sameType":
		return &Val{T: Eq(mk("typeOf", SType, arg(0).T), mk("typeOf", SType, arg(1).T)), Ty: boolTy}
	case "int", "uint":
		a := arg(0)
		return &Val{T: a.T, Ty: intTy}
	case "unboxStr":
		w.BG.Funs["unbox.Str"] = FunSig{Name: "unbox.Str", Args: []Sort{SRef}, Res: SStr}
		return &Val{T: App("unbox.Str", SStr, arg(0).T), Ty: types.Typ[types.String]}
	case "unboxInt":
		w.BG.Funs["unbox.Int"] = FunSig{Name: "unbox.Int", Args: []Sort{SRef}, Res: SInt}
		return &Val{T: App("unbox.Int", SInt, arg(0).T), Ty: types.Typ[types.Int]}
	case "inSet":
		return &Val{T: Select(arg(0).T, arg(1).T), Ty: boolTy}
	}
	if e.Op == "as" {
		a := arg(0)
		if len(e.Args) != 2 {
			cfail("as(x, T)")
		}
		ty, ok := w.parseTypeText(e.Args[1].String(), c.Pkg)
		if !ok {
			cfail("as: unknown type %s", e.Args[1])
		}
		if _, isStruct := ty.Underlying().(*types.Struct); isStruct {
			ty = types.NewPointer(ty)
		}
		return &Val{T: a.T, Ty: ty}
	}
	if lf, ok := w.CS.Logics[e.Op]; ok {
		if len(e.Args) != len(lf.Params) {
			cfail("%s expects %d arguments", lf.Name, len(lf.Params))
		}
		rt, ok := w.parseTypeText(lf.Result, c.Pkg)
		if !ok {
			cfail("logic %s: unknown result type %s", lf.Name, lf.Result)
		}
		rs, _ := w.SortOf(rt)
		var ts []*Term
		var sorts []Sort
		for i := range lf.Params {
			a := arg(i)
			pt, _ := w.parseTypeText(lf.Params[i].Type, c.Pkg)
			a = c.X.coerce(c.St, a, pt)
			if a == nil || a.T == nil {
				cfail("argument %d of %s has no value the clause can talk about in %s", i+1, lf.Name, e)
			}
			ts = append(ts, a.T)
			sorts = append(sorts, a.T.Sort)
		}
		sym := "logic." + lf.Name
		w.BG.Funs[sym] = FunSig{Name: sym, Args: sorts, Res: rs}
		return &Val{T: App(sym, rs, ts...), Ty: rt}
	}
	if p, ok := w.CS.Preds[e.Op]; ok {
		if len(e.Args) != len(p.Params) {
			cfail("%s expects %d arguments", p.Name, len(p.Params))
		}
		if p.Body == nil {
			cfail("predicate %s has no body", p.Name)
		}
		vs := map[string]*Val{}
		for i, pv := range p.Params {
			a := arg(i)
			if ty, ok := w.parseTypeText(pv.Type, c.Pkg); ok {
				a = &Val{T: a.T, Ty: ty, Fields: a.Fields, HBase: a.HBase, HStruct: a.HStruct, HPath: a.HPath}
			}
			vs[pv.Name] = a
		}
		in := *c
		in.Names = vs
		in.Bound = map[string]*Val{}
		return in.tr(p.Body.Expr)
	}
	if sf := w.lookupSpec(e.Op, c.Pkg); sf != nil {
		var args []*Val
		for i := range e.Args {
			args = append(args, arg(i))
		}
		return c.X.applySpec(sf, c.St, args, c.Reads, c.Fuel)
	}
	cfail("unknown function %s in contract", e.Op)
	return nil
}

// callIn applies a spec function resolved in another package's scope; arguments are translated in the caller's environment.
func (c *CEnv) callIn(e *CExpr, caller *CEnv) *Val {
	sf := c.w().lookupSpec(e.Op, c.Pkg)
	if sf == nil {
		cfail("unknown function %s", e.Op)
	}
	var args []*Val
	for _, a := range e.Args {
		args = append(args, caller.tr(a))
	}
	return caller.X.applySpec(sf, caller.St, args, caller.Reads, caller.Fuel)
}

func (s *St) alloc() *Term {
	if t, ok := s.heap["$alloc"]; ok {
		return t
	}
	return Var("$alloc", ArrSort(SRef, SBool))
}
