package gvc

import (
	"encoding/json"
	"go/ast"
	"go/types"
	"os"
	"sort"
	"strings"
)

// Renamed parameters and locals. Contract clauses name parameters, receivers and (in loop invariants) locals of the
// function they are bound to. A behaviour-preserving rename of such a variable would unbind the clause — a false alarm.
// /verif/locals.lock records, on the unchanged tree, the variables of every function under contract in declaration order
// (receiver, parameters, then locals with their types). When a recorded name no longer exists in the function and the
// variable at the same position (and, for locals, of the same type) has another name, the contract clauses of that function
// (its loops, closures and ghost hooks included) are rewritten to the new name before anything is verified. A rename
// together with a reordering of declarations is not recognised (the clause then fails to bind and is reported).

type LocalRec struct {
	Name string `json:"name"`
	Type string `json:"type"`
}

type FuncVars struct {
	Params []string   `json:"params"` // receiver first
	Locals []LocalRec `json:"locals"`
}

// funcVars lists the variables of a function (or, for a closure FuncInfo, of the function literal) in declaration order.
func (w *World) funcVars(fi *FuncInfo) *FuncVars {
	fv := &FuncVars{}
	info := fi.Pkg.TypesInfo
	var ftype *ast.FuncType
	var body *ast.BlockStmt
	if fi.Lit != nil {
		ftype, body = fi.Lit.Type, fi.Lit.Body
	} else if fi.Decl != nil {
		ftype, body = fi.Decl.Type, fi.Decl.Body
		if fi.Decl.Recv != nil {
			for _, f := range fi.Decl.Recv.List {
				for _, nm := range f.Names {
					fv.Params = append(fv.Params, nm.Name)
				}
			}
		}
	}
	if ftype == nil || body == nil {
		return fv
	}
	if ftype.Params != nil {
		for _, f := range ftype.Params.List {
			for _, nm := range f.Names {
				fv.Params = append(fv.Params, nm.Name)
			}
		}
	}
	if ftype.Results != nil {
		for _, f := range ftype.Results.List {
			for _, nm := range f.Names {
				fv.Params = append(fv.Params, nm.Name)
			}
		}
	}
	seen := map[types.Object]bool{}
	ast.Inspect(body, func(n ast.Node) bool {
		if lit, ok := n.(*ast.FuncLit); ok && lit != fi.Lit {
			return false // the locals of a nested literal belong to that literal
		}
		id, ok := n.(*ast.Ident)
		if !ok || id.Name == "_" {
			return true
		}
		if o, ok := info.Defs[id].(*types.Var); ok && !o.IsField() && !seen[o] {
			seen[o] = true
			fv.Locals = append(fv.Locals, LocalRec{Name: id.Name, Type: types.TypeString(o.Type(), func(p *types.Package) string { return p.Name() })})
		}
		return true
	})
	return fv
}

// contractedUnits: the functions and closures that carry a contract (keys as in the contract files).
func (w *World) contractedUnits() map[string]*FuncInfo {
	out := map[string]*FuncInfo{}
	for _, c := range w.CS.Order {
		key := c.Key
		if i := strings.Index(key, "["); i >= 0 {
			if j := strings.Index(key, "]"); j > i {
				key = key[:i] + key[j+1:]
			}
		}
		switch c.Kind {
		case "func", "lemma", "spec":
			if fi := w.Funcs[key]; fi != nil && fi.Decl != nil {
				out[key] = fi
			}
		case "closure":
			if fi := w.closureInfo(key); fi != nil {
				out[key] = fi
			}
		case "loop":
			// loops belong to their function
			k := key[:strings.LastIndex(key, "#")]
			if fi := w.Funcs[k]; fi != nil && fi.Decl != nil {
				out[k] = fi
			} else if fi := w.closureInfo(k); fi != nil {
				out[k] = fi
			}
		}
	}
	return out
}

// WriteLocalsLock records the variables of every unit under contract.
func (w *World) WriteLocalsLock(path string, prefix string, into map[string]*FuncVars) {
	for k, fi := range w.contractedUnits() {
		into[prefix+k] = w.funcVars(fi)
	}
	keys := make([]string, 0, len(into))
	for k := range into {
		keys = append(keys, k)
	}
	sort.Strings(keys)
	data, _ := json.MarshalIndent(into, "", " ")
	os.WriteFile(path, data, 0o644)
}

// ApplyLocalsLock rewrites contract clauses after behaviour-preserving renames of parameters and locals.
func (w *World) ApplyLocalsLock(path string, prefix string) []string {
	data, err := os.ReadFile(path)
	if err != nil {
		return nil
	}
	lock := map[string]*FuncVars{}
	if json.Unmarshal(data, &lock) != nil {
		return nil
	}
	var notes []string
	units := w.contractedUnits()
	keys := make([]string, 0, len(units))
	for k := range units {
		keys = append(keys, k)
	}
	sort.Strings(keys)
	for _, k := range keys {
		rec := lock[prefix+k]
		if rec == nil {
			continue
		}
		cur := w.funcVars(units[k])
		has := map[string]bool{}
		for _, p := range cur.Params {
			has[p] = true
		}
		for _, l := range cur.Locals {
			has[l.Name] = true
		}
		ren := map[string]string{}
		if len(rec.Params) == len(cur.Params) {
			for i := range rec.Params {
				if rec.Params[i] != cur.Params[i] && !has[rec.Params[i]] {
					ren[rec.Params[i]] = cur.Params[i]
				}
			}
		}
		if len(rec.Locals) == len(cur.Locals) {
			for i := range rec.Locals {
				if rec.Locals[i].Name != cur.Locals[i].Name && !has[rec.Locals[i].Name] && rec.Locals[i].Type == cur.Locals[i].Type {
					ren[rec.Locals[i].Name] = cur.Locals[i].Name
				}
			}
		}
		if len(ren) == 0 {
			continue
		}
		for _, c := range w.CS.Order {
			ck := c.Key
			if i := strings.Index(ck, "["); i >= 0 {
				if j := strings.Index(ck, "]"); j > i {
					ck = ck[:i] + ck[j+1:]
				}
			}
			if ck == k || strings.HasPrefix(ck, k+"#") {
				nc := renameContract(c, ren)
				*c = *nc
			}
		}
		var rs []string
		for a, b := range ren {
			rs = append(rs, a+"->"+b)
		}
		sort.Strings(rs)
		notes = append(notes, k+": contract clauses follow the renamed variables "+strings.Join(rs, ", "))
	}
	return notes
}

func renameExpr(e *CExpr, ren map[string]string) *CExpr {
	if e == nil {
		return nil
	}
	n := *e
	if e.Kind == "ident" {
		if to, ok := ren[e.Op]; ok {
			n.Op = to
		}
		return &n
	}
	inner := ren
	if e.Kind == "quant" {
		// bound variables shadow
		for _, v := range e.Vars {
			if _, ok := ren[v.Name]; ok {
				inner = map[string]string{}
				for a, b := range ren {
					inner[a] = b
				}
				for _, v2 := range e.Vars {
					delete(inner, v2.Name)
				}
				break
			}
		}
	}
	n.Args = nil
	for _, a := range e.Args {
		n.Args = append(n.Args, renameExpr(a, inner))
	}
	n.Trig = nil
	for _, t := range e.Trig {
		var nt []*CExpr
		for _, te := range t {
			nt = append(nt, renameExpr(te, inner))
		}
		n.Trig = append(n.Trig, nt)
	}
	return &n
}

func renameContract(c *Contract, ren map[string]string) *Contract {
	n := *c
	rc := func(cls []*Clause) []*Clause {
		var out []*Clause
		for _, cl := range cls {
			nc := *cl
			nc.Expr = renameExpr(cl.Expr, ren)
			out = append(out, &nc)
		}
		return out
	}
	n.Requires, n.Ensures, n.Invariants, n.Relies, n.Defines = rc(c.Requires), rc(c.Ensures), rc(c.Invariants), rc(c.Relies), rc(c.Defines)
	n.Joins = rc(c.Joins)
	if c.Decreases != nil {
		d := *c.Decreases
		d.Expr = renameExpr(d.Expr, ren)
		n.Decreases = &d
	}
	n.DecList = nil
	for _, e := range c.DecList {
		n.DecList = append(n.DecList, renameExpr(e, ren))
	}
	rm := func(items []*ModItem) []*ModItem {
		var out []*ModItem
		for _, m := range items {
			out = append(out, &ModItem{Text: m.Text, Expr: renameExpr(m.Expr, ren)})
		}
		return out
	}
	n.Modifies, n.Resumes = rm(c.Modifies), rm(c.Resumes)
	rg := func(gs []*GhostSet) []*GhostSet {
		var out []*GhostSet
		for _, g := range gs {
			out = append(out, &GhostSet{Var: g.Var, Text: g.Text, Expr: renameExpr(g.Expr, ren)})
		}
		return out
	}
	n.GhostSets, n.Records = rg(c.GhostSets), rg(c.Records)
	n.Afters = nil
	for _, h := range c.Afters {
		n.Afters = append(n.Afters, &AfterHook{Callee: h.Callee, Var: h.Var, Text: h.Text, Expr: renameExpr(h.Expr, ren)})
	}
	n.YieldsArgs = nil
	for _, e := range c.YieldsArgs {
		n.YieldsArgs = append(n.YieldsArgs, renameExpr(e, ren))
	}
	rk := func(k string) string {
		if to, ok := ren[k]; ok {
			return to
		}
		return k
	}
	if c.ParamProto != nil {
		n.ParamProto = map[string]string{}
		for k, v := range c.ParamProto {
			n.ParamProto[rk(k)] = v
		}
	}
	if c.ParamSubj != nil {
		n.ParamSubj = map[string][]string{}
		for k, v := range c.ParamSubj {
			n.ParamSubj[rk(k)] = v
		}
	}
	if c.Carries != nil {
		n.Carries = map[string]*CarryDecl{}
		for k, cd := range c.Carries {
			nd := &CarryDecl{Proto: cd.Proto, Text: cd.Text}
			for _, a := range cd.Args {
				nd.Args = append(nd.Args, renameExpr(a, ren))
			}
			n.Carries[rk(k)] = nd
		}
	}
	return &n
}
