package gvc

import (
	"fmt"
	"go/ast"
	"go/token"
	"go/types"
	"os"
	"path/filepath"
	"sort"
	"strings"

	"golang.org/x/tools/go/packages"
)

const repoModule = "github.com/ddddddO/gtree"

// FuncInfo describes a function declaration (or closure) of the repository.
type FuncInfo struct {
	Key     string
	Obj     *types.Func
	Decl    *ast.FuncDecl
	Lit     *ast.FuncLit // closures
	Pkg     *packages.Package
	IsSpec  bool // declared in a contract file: a pure spec function or a lemma
	File    string
	Loops   map[ast.Stmt]int // loop statement -> ordinal (1-based) within the function
	Lits    map[*ast.FuncLit]int
	LitList []*ast.FuncLit
}

// FieldInfo is one leaf field of a struct, stored as a heap array Ref -> Sort.
type FieldInfo struct {
	Key   string // e.g. "Node.brnch.value"
	Sort  Sort
	Ty    types.Type
	Ghost bool
}

// World is everything loaded from /repo plus contracts.
type World struct {
	Fset          *token.FileSet
	Pkgs          map[string]*packages.Package // by package path
	Main          []*packages.Package          // the repository packages
	Funcs         map[string]*FuncInfo
	ByObj         map[*types.Func]*FuncInfo
	Fields        map[string]*FieldInfo
	FieldOrder    []string
	CS            *ContractSet
	BG            *Background
	Specs         map[string]*SpecFn
	GhostVars     map[string]*FieldInfo // ghost globals, key "$g.name"
	Globals       map[types.Object]*Term
	TypeConsts    map[string]bool
	Errors        []string
	Tags          string
	structKeys    map[*types.Named]string
	wfReads       map[string]bool
	TrustedAxioms []string
	reach         map[string]map[string]bool
}

func pkgShort(p *types.Package) string {
	if p == nil {
		return ""
	}
	return p.Name()
}

// KeyOfFunc returns the contract key of a function object.
func KeyOfFunc(fn *types.Func) string {
	fn = fn.Origin()
	sig := fn.Type().(*types.Signature)
	pk := pkgShort(fn.Pkg())
	if pk == "main" {
		pk = "main"
	}
	if r := sig.Recv(); r != nil {
		t := r.Type()
		if p, ok := t.(*types.Pointer); ok {
			t = p.Elem()
		}
		switch n := t.(type) {
		case *types.Named:
			return pk + "." + n.Obj().Name() + "." + fn.Name()
		case *types.Interface:
			return pk + ".?." + fn.Name()
		}
		return pk + "." + t.String() + "." + fn.Name()
	}
	return pk + "." + fn.Name()
}

// Load loads the repository packages from dir with the given build tags.
func Load(dir, tags string, trustedDir string) (*World, error) {
	cfg := &packages.Config{
		Mode:       packages.LoadAllSyntax,
		Dir:        dir,
		BuildFlags: []string{"-tags=" + tags},
		Env:        append(os.Environ(), "GOFLAGS=-mod=mod", "GOPROXY=off"),
	}
	patterns := []string{".", "./markdown"}
	if !strings.Contains(tags, "tinywasm") {
		patterns = append(patterns, "./cmd/gtree")
	}
	pkgs, err := packages.Load(cfg, patterns...)
	if err != nil {
		return nil, err
	}
	w := &World{
		Pkgs: map[string]*packages.Package{}, Funcs: map[string]*FuncInfo{}, ByObj: map[*types.Func]*FuncInfo{},
		Fields: map[string]*FieldInfo{}, CS: NewContractSet(), BG: NewBackground(), Specs: map[string]*SpecFn{},
		GhostVars: map[string]*FieldInfo{}, Globals: map[types.Object]*Term{}, TypeConsts: map[string]bool{}, Tags: tags,
		structKeys: map[*types.Named]string{},
	}
	for _, p := range pkgs {
		if len(p.Errors) > 0 {
			return nil, fmt.Errorf("package %s does not type-check: %v", p.PkgPath, p.Errors[0])
		}
		w.Fset = p.Fset
		w.Main = append(w.Main, p)
	}
	packages.Visit(pkgs, nil, func(p *packages.Package) { w.Pkgs[p.PkgPath] = p })
	sort.Slice(w.Main, func(i, j int) bool { return w.Main[i].PkgPath < w.Main[j].PkgPath })
	for _, p := range w.Main {
		for _, f := range p.Syntax {
			fname := w.Fset.Position(f.Pos()).Filename
			isContract := strings.HasPrefix(filepath.Base(fname), "verif_")
			if isContract {
				w.readContractComments(f, fname)
			}
			for _, d := range f.Decls {
				fd, ok := d.(*ast.FuncDecl)
				if !ok || fd.Body == nil {
					continue
				}
				obj, _ := p.TypesInfo.Defs[fd.Name].(*types.Func)
				if obj == nil {
					continue
				}
				fi := &FuncInfo{Key: KeyOfFunc(obj), Obj: obj, Decl: fd, Pkg: p, IsSpec: isContract, File: fname}
				fi.index()
				if old, dup := w.Funcs[fi.Key]; dup {
					w.Errors = append(w.Errors, fmt.Sprintf("duplicate function key %s (%s, %s)", fi.Key, old.File, fname))
				}
				w.Funcs[fi.Key] = fi
				w.ByObj[obj] = fi
			}
		}
	}
	// trusted specs
	if trustedDir != "" {
		files, _ := filepath.Glob(filepath.Join(trustedDir, "*.spec"))
		sort.Strings(files)
		for _, tf := range files {
			data, err := os.ReadFile(tf)
			if err != nil {
				return nil, err
			}
			var lines, poss []string
			for i, ln := range strings.Split(string(data), "\n") {
				t := strings.TrimSpace(ln)
				if strings.HasPrefix(t, "//@") {
					lines = append(lines, t[3:])
					poss = append(poss, fmt.Sprintf("%s:%d", filepath.Base(tf), i+1))
				}
			}
			w.CS.ParseContractLines(tf, lines, poss)
		}
	}
	w.CS.ResolveApplies()
	w.Errors = append(w.Errors, w.CS.Errors...)
	w.initGhosts()
	w.registerAllFields()
	return w, nil
}

func (w *World) readContractComments(f *ast.File, fname string) {
	var lines, poss []string
	for _, cg := range f.Comments {
		for _, c := range cg.List {
			if strings.HasPrefix(c.Text, "// @") {
				// gofmt rewrites //@ to // @ inside doc comments
				c = &ast.Comment{Slash: c.Slash, Text: "//@" + c.Text[4:]}
			}
			if strings.HasPrefix(c.Text, "//@") {
				lines = append(lines, c.Text[3:])
				p := w.Fset.Position(c.Pos())
				poss = append(poss, fmt.Sprintf("%s:%d", filepath.Base(p.Filename), p.Line))
			}
		}
	}
	w.CS.ParseContractLines(fname, lines, poss)
}

// index numbers loops and function literals in source order.
func (fi *FuncInfo) index() {
	fi.Loops = map[ast.Stmt]int{}
	fi.Lits = map[*ast.FuncLit]int{}
	var body ast.Node
	if fi.Decl != nil {
		body = fi.Decl.Body
	} else {
		body = fi.Lit.Body
	}
	n := 0
	var walk func(ast.Node) bool
	walk = func(nd ast.Node) bool {
		switch s := nd.(type) {
		case *ast.ForStmt:
			n++
			fi.Loops[s] = n
		case *ast.RangeStmt:
			n++
			fi.Loops[s] = n
		case *ast.FuncLit:
			if nd != ast.Node(fi.Lit) {
				fi.Lits[s] = len(fi.Lits) + 1
				fi.LitList = append(fi.LitList, s)
				return false // loops inside closures are numbered within the closure
			}
		}
		return true
	}
	ast.Inspect(body, walk)
}

// ---------- types → sorts, struct fields ----------

func (w *World) SortOf(t types.Type) (Sort, bool) {
	switch u := t.Underlying().(type) {
	case *types.Basic:
		switch {
		case u.Info()&types.IsBoolean != 0:
			return SBool, true
		case u.Info()&types.IsInteger != 0:
			return SInt, true
		case u.Info()&types.IsString != 0:
			return SStr, true
		case u.Kind() == types.UntypedNil:
			return SRef, true
		}
	case *types.Pointer, *types.Interface, *types.Signature, *types.Chan:
		return SRef, true
	case *types.Slice:
		if es, ok := w.SortOf(u.Elem()); ok {
			return SeqOf(es)
		}
	case *types.Map:
		// map[string]struct{}: a reference to a set of strings (ghost variable maps[ref]); package-level maps of
		// constants are handled as set values by globalInit
		if ks, ok := w.SortOf(u.Key()); ok && ks == SStr {
			if st, ok := u.Elem().Underlying().(*types.Struct); ok && st.NumFields() == 0 {
				return SRef, true
			}
		}
	}
	if _, ok := t.(*types.TypeParam); ok {
		return SRef, true
	}
	return "", false
}

func isUnsigned(t types.Type) bool {
	b, ok := t.Underlying().(*types.Basic)
	return ok && b.Info()&types.IsUnsigned != 0
}

func isStructVal(t types.Type) (*types.Struct, bool) {
	s, ok := t.Underlying().(*types.Struct)
	return s, ok
}

// StructKey names a struct type for field keys ("Node", "markdown.Parser", "list.List").
func (w *World) StructKey(t types.Type) string {
	if p, ok := t.(*types.Pointer); ok {
		t = p.Elem()
	}
	n, ok := t.(*types.Named)
	if !ok {
		return t.String()
	}
	n = n.Origin()
	if k, ok := w.structKeys[n]; ok {
		return k
	}
	k := n.Obj().Name()
	if n.Obj().Pkg() != nil && n.Obj().Pkg().Path() != repoModule {
		k = n.Obj().Pkg().Name() + "." + k
	}
	w.structKeys[n] = k
	return k
}

// Field returns (creating on demand) the heap array of a leaf field path of a struct type.
func (w *World) Field(structTy types.Type, path string, leafTy types.Type) (*FieldInfo, bool) {
	key := w.StructKey(structTy) + "." + path
	if f, ok := w.Fields[key]; ok {
		return f, true
	}
	s, ok := w.SortOf(leafTy)
	if !ok {
		return nil, false
	}
	f := &FieldInfo{Key: key, Sort: s, Ty: leafTy}
	w.Fields[key] = f
	w.FieldOrder = append(w.FieldOrder, key)
	return f, true
}

// registerAllFields creates the heap arrays of every named struct type of the repository packages.
func (w *World) registerAllFields() {
	for _, p := range w.Main {
		sc := p.Types.Scope()
		for _, nm := range sc.Names() {
			tn, ok := sc.Lookup(nm).(*types.TypeName)
			if !ok {
				continue
			}
			n, ok := tn.Type().(*types.Named)
			if !ok {
				continue
			}
			if _, ok := n.Underlying().(*types.Struct); !ok {
				continue
			}
			var walk func(t types.Type, path string)
			walk = func(t types.Type, path string) {
				if sty, ok := t.Underlying().(*types.Struct); ok && (path == "" || !isPointer(t)) {
					if path != "" {
						if _, named := t.(*types.Named); named && t.(*types.Named).Obj().Pkg() != nil && t.(*types.Named).Obj().Pkg().Path() != p.PkgPath && !strings.HasPrefix(t.(*types.Named).Obj().Pkg().Path(), repoModule) {
							// struct values of other packages (mutexes) are opaque, except for the ghost fields their trusted model
							// declares: an embedded sync.Mutex at path P of struct n gets the ghost leaf n.P.<ghost>
							prefix := w.StructKey(t) + "."
							for _, gk := range append([]string{}, w.FieldOrder...) {
								g := w.Fields[gk]
								if g != nil && g.Ghost && strings.HasPrefix(gk, prefix) && !strings.Contains(gk[len(prefix):], ".") {
									key := w.StructKey(n) + "." + path + "." + gk[len(prefix):]
									if _, dup := w.Fields[key]; !dup {
										w.Fields[key] = &FieldInfo{Key: key, Sort: g.Sort, Ty: g.Ty, Ghost: true}
										w.FieldOrder = append(w.FieldOrder, key)
									}
								}
							}
							return
						}
					}
					for i := 0; i < sty.NumFields(); i++ {
						f := sty.Field(i)
						np := f.Name()
						if path != "" {
							np = path + "." + f.Name()
						}
						walk(f.Type(), np)
					}
					return
				}
				if path != "" {
					w.Field(n, path, t)
				}
			}
			walk(n, "")
		}
	}
}

func isPointer(t types.Type) bool { _, ok := t.Underlying().(*types.Pointer); return ok }

func (w *World) initGhosts() {
	w.GhostVars["maps"] = &FieldInfo{Key: "$g.maps", Sort: ArrSort(SRef, SSetStr), Ghost: true,
		Ty: types.NewMap(types.NewInterfaceType(nil, nil), types.NewMap(types.Typ[types.String], types.NewStruct(nil, nil)))}
	for _, g := range w.CS.Ghosts {
		ty, ok := w.parseTypeText(g.Type, nil)
		var s Sort
		if ok {
			s, ok = w.SortOf(ty)
		}
		if !ok {
			switch g.Type {
			case "seqref", "[]any":
				s, ok = SSeqRef, true
			case "ref", "any":
				s, ok = SRef, true
			}
			if f := strings.Fields(g.Type); len(f) == 2 && f[0] == "refmap" {
				if vt, ok2 := w.parseTypeText(f[1], nil); ok2 {
					if vs, ok3 := w.SortOf(vt); ok3 {
						s, ok = ArrSort(SRef, vs), true
						ty = types.NewMap(types.NewInterfaceType(nil, nil), vt)
					}
				}
			}
		}
		if !ok {
			w.Errors = append(w.Errors, "ghost "+g.Name+": unsupported type "+g.Type)
			continue
		}
		fi := &FieldInfo{Key: g.Name, Sort: s, Ty: ty, Ghost: true}
		if g.Field {
			w.Fields[g.Name] = fi
			w.FieldOrder = append(w.FieldOrder, g.Name)
		} else {
			fi.Key = "$g." + g.Name
			w.GhostVars[g.Name] = fi
		}
	}
}

// parseTypeText resolves a small Go type syntax used in contracts.
func (w *World) parseTypeText(s string, pkg *packages.Package) (types.Type, bool) {
	s = strings.TrimSpace(s)
	switch s {
	case "int":
		return types.Typ[types.Int], true
	case "uint":
		return types.Typ[types.Uint], true
	case "bool":
		return types.Typ[types.Bool], true
	case "string":
		return types.Typ[types.String], true
	case "byte":
		return types.Typ[types.Uint8], true
	case "error":
		return types.Universe.Lookup("error").Type(), true
	case "any":
		return types.NewInterfaceType(nil, nil), true
	}
	if strings.HasPrefix(s, "[]") {
		if e, ok := w.parseTypeText(s[2:], pkg); ok {
			return types.NewSlice(e), true
		}
		return nil, false
	}
	if strings.HasPrefix(s, "*") {
		if e, ok := w.parseTypeText(s[1:], pkg); ok {
			return types.NewPointer(e), true
		}
		return nil, false
	}
	if strings.HasPrefix(s, "map[string]struct{}") {
		return types.NewMap(types.Typ[types.String], types.NewStruct(nil, nil)), true
	}
	// named type, possibly qualified
	if i := strings.Index(s, "."); i >= 0 {
		pn, tn := s[:i], s[i+1:]
		for _, p := range w.Pkgs {
			if p.Name == pn && p.Types != nil {
				if o := p.Types.Scope().Lookup(tn); o != nil {
					if _, ok := o.(*types.TypeName); ok {
						return o.Type(), true
					}
				}
			}
		}
		return nil, false
	}
	try := func(p *packages.Package) (types.Type, bool) {
		if p == nil || p.Types == nil {
			return nil, false
		}
		if o := p.Types.Scope().Lookup(s); o != nil {
			if _, ok := o.(*types.TypeName); ok {
				return o.Type(), true
			}
		}
		return nil, false
	}
	if t, ok := try(pkg); ok {
		return t, true
	}
	for _, p := range w.Main {
		if t, ok := try(p); ok {
			return t, true
		}
	}
	return nil, false
}

// TypeConst returns the Type-sorted constant for a named (struct) type.
func (w *World) TypeConst(t types.Type) *Term {
	name := "T." + w.StructKey(t)
	if !w.TypeConsts[name] {
		w.TypeConsts[name] = true
		w.BG.Types = append(w.BG.Types, name)
		sort.Strings(w.BG.Types)
	}
	return mk(name, SType)
}

func (w *World) pos(p token.Pos) string {
	ps := w.Fset.Position(p)
	return fmt.Sprintf("%s:%d", filepath.Base(ps.Filename), ps.Line)
}

func (w *World) posCol(p token.Pos) string {
	ps := w.Fset.Position(p)
	return fmt.Sprintf("%s:%d:%d", filepath.Base(ps.Filename), ps.Line, ps.Column)
}
