package gvc

import (
	"fmt"
	"go/ast"
	"go/token"
	"go/types"
	"sort"
	"strings"
)

func (x *Exec) block(list []ast.Stmt, st *St, fr *Frame, k func(*St)) {
	if st.dead {
		return
	}
	if len(list) == 0 {
		k(st)
		return
	}
	x.stmt(list[0], st, fr, func(st *St) { x.block(list[1:], st, fr, k) })
}

func (x *Exec) stmt(s ast.Stmt, st *St, fr *Frame, k func(*St)) {
	if st.dead {
		return
	}
	switch n := s.(type) {
	case *ast.BlockStmt:
		x.block(n.List, st, fr, k)
	case *ast.EmptyStmt:
		k(st)
	case *ast.ExprStmt:
		x.eval(n.X, st, fr, func(st *St, _ *Val) { k(st) })
	case *ast.DeclStmt:
		gd := n.Decl.(*ast.GenDecl)
		if gd.Tok != token.VAR {
			k(st)
			return
		}
		var specs []*ast.ValueSpec
		for _, sp := range gd.Specs {
			specs = append(specs, sp.(*ast.ValueSpec))
		}
		var step func(i int, st *St)
		step = func(i int, st *St) {
			if i == len(specs) {
				k(st)
				return
			}
			vs := specs[i]
			if len(vs.Values) == 0 {
				for _, nm := range vs.Names {
					if o, ok := fr.info.Defs[nm].(*types.Var); ok {
						st.vars[o] = x.zeroVal(fr.subst(o.Type()))
					}
				}
				step(i+1, st)
				return
			}
			if len(vs.Values) != len(vs.Names) {
				oos("multi-value var declaration at %s", x.W.pos(vs.Pos()))
			}
			x.evalArgs(vs.Values, st, fr, func(st *St, vals []*Val) {
				for j, nm := range vs.Names {
					if o, ok := fr.info.Defs[nm].(*types.Var); ok {
						st.vars[o] = x.coerce(st, vals[j], o.Type())
					}
				}
				step(i+1, st)
			})
		}
		step(0, st)
	case *ast.AssignStmt:
		x.assignStmt(n, st, fr, k)
	case *ast.IncDecStmt:
		one := &ast.BasicLit{Kind: token.INT, Value: "1"}
		_ = one
		v := x.evalPure(n.X, st, fr)
		var nv *Term
		if n.Tok == token.INC {
			nv = Arith("+", v.T, IntLit(1))
		} else {
			nv = Arith("-", v.T, IntLit(1))
			if isUnsigned(v.Ty) {
				x.safety(st, fr, Cmp(">=", nv, IntLit(0)), "unsigned-underflow", n.TokPos)
			}
		}
		x.assignTo(n.X, &Val{T: nv, Ty: v.Ty}, st, fr, false)
		k(st)
	case *ast.IfStmt:
		x.ifStmt(n, st, fr, k)
	case *ast.ReturnStmt:
		if len(n.Results) == 0 {
			fr.ret(st, nil)
			return
		}
		x.evalArgs(n.Results, st, fr, func(st *St, vals []*Val) {
			if len(vals) == 1 && vals[0].Tuple != nil {
				vals = vals[0].Tuple
			}
			fr.ret(st, vals)
		})
	case *ast.BranchStmt:
		switch n.Tok {
		case token.BREAK:
			if n.Label != nil {
				if b, ok := fr.lbrk[n.Label.Name]; ok {
					b(st)
					return
				}
				oos("break to unknown label %s", n.Label.Name)
			}
			if fr.brk == nil {
				oos("break outside loop at %s", x.W.pos(n.Pos()))
			}
			fr.brk(st)
		case token.CONTINUE:
			if n.Label != nil {
				if c, ok := fr.lcont[n.Label.Name]; ok {
					c(st)
					return
				}
				oos("continue to unknown label %s", n.Label.Name)
			}
			if fr.cont == nil {
				oos("continue outside loop at %s", x.W.pos(n.Pos()))
			}
			fr.cont(st)
		default:
			oos("unsupported branch statement %s at %s", n.Tok, x.W.pos(n.Pos()))
		}
	case *ast.LabeledStmt:
		nf := *fr
		nf.label = n.Label.Name
		x.stmt(n.Stmt, st, &nf, k)
	case *ast.ForStmt:
		x.forStmt(n, st, fr, k)
	case *ast.RangeStmt:
		x.rangeStmt(n, st, fr, k)
	case *ast.SwitchStmt:
		x.switchStmt(n, st, fr, k)
	case *ast.DeferStmt:
		st.defers[fr.id] = append(st.defers[fr.id], deferred{call: n.Call, fr: fr})
		k(st)
	case *ast.SelectStmt:
		x.selectStmt(n, st, fr, k)
	case *ast.SendStmt:
		x.sendStmt(n, st, fr, k)
	case *ast.GoStmt:
		x.goStmt(n, st, fr, k)
	default:
		oos("unsupported statement %T at %s", s, x.W.pos(s.Pos()))
	}
}

func (x *Exec) ifStmt(n *ast.IfStmt, st *St, fr *Frame, k func(*St)) {
	run := func(st *St) {
		x.eval(n.Cond, st, fr, func(st *St, c *Val) {
			s1, s2 := st.clone(), st.clone()
			x.assume(s1, c.T)
			x.assume(s2, Not(c.T))
			if !s1.dead {
				s1.note("if %s: then (%s)", x.W.pos(n.Pos()), short(c.T))
				x.block(n.Body.List, s1, fr, k)
			}
			if !s2.dead {
				s2.note("if %s: else", x.W.pos(n.Pos()))
				if n.Else != nil {
					x.stmt(n.Else, s2, fr, k)
				} else {
					k(s2)
				}
			}
		})
	}
	if n.Init != nil {
		x.stmt(n.Init, st, fr, run)
		return
	}
	run(st)
}

func short(t *Term) string {
	s := t.String()
	if len(s) > 80 {
		return s[:77] + "..."
	}
	return s
}

func (x *Exec) switchStmt(n *ast.SwitchStmt, st *St, fr *Frame, k func(*St)) {
	run := func(st *St) {
		withTag := func(st *St, tag *Val) {
			// break inside a switch leaves the switch
			sfr := *fr
			sfr.brk = k
			var clauses []*ast.CaseClause
			var def *ast.CaseClause
			for _, c := range n.Body.List {
				cc := c.(*ast.CaseClause)
				if cc.List == nil {
					def = cc
				} else {
					clauses = append(clauses, cc)
				}
			}
			var step func(i int, st *St)
			step = func(i int, st *St) {
				if i == len(clauses) {
					if def != nil {
						x.block(def.Body, st, &sfr, k)
					} else {
						k(st)
					}
					return
				}
				cc := clauses[i]
				for _, b := range cc.Body {
					if bs, ok := b.(*ast.BranchStmt); ok && bs.Tok == token.FALLTHROUGH {
						oos("fallthrough at %s", x.W.pos(bs.Pos()))
					}
				}
				x.evalArgs(cc.List, st, fr, func(st *St, vals []*Val) {
					var alts []*Term
					for _, v := range vals {
						if tag != nil {
							a, b := unifyNil(tag, v)
							alts = append(alts, x.valEq(st, a, b))
						} else {
							alts = append(alts, v.T)
						}
					}
					cond := Or(alts...)
					s1, s2 := st.clone(), st.clone()
					x.assume(s1, cond)
					x.assume(s2, Not(cond))
					if !s1.dead {
						s1.note("switch %s: case %d", x.W.pos(n.Pos()), i+1)
						x.block(cc.Body, s1, &sfr, k)
					}
					if !s2.dead {
						step(i+1, s2)
					}
				})
			}
			step(0, st)
		}
		if n.Tag != nil {
			x.eval(n.Tag, st, fr, withTag)
		} else {
			withTag(st, nil)
		}
	}
	if n.Init != nil {
		x.stmt(n.Init, st, fr, run)
		return
	}
	run(st)
}

// ---------- assignment ----------

func (x *Exec) assignStmt(n *ast.AssignStmt, st *St, fr *Frame, k func(*St)) {
	define := n.Tok == token.DEFINE
	if n.Tok != token.ASSIGN && n.Tok != token.DEFINE {
		// compound assignment x op= e
		var op token.Token
		switch n.Tok {
		case token.ADD_ASSIGN:
			op = token.ADD
		case token.SUB_ASSIGN:
			op = token.SUB
		case token.MUL_ASSIGN:
			op = token.MUL
		default:
			oos("unsupported assignment operator %s at %s", n.Tok, x.W.pos(n.Pos()))
		}
		x.eval(n.Rhs[0], st, fr, func(st *St, r *Val) {
			l := x.evalPure(n.Lhs[0], st, fr)
			be := &ast.BinaryExpr{X: n.Lhs[0], Y: n.Rhs[0], Op: op, OpPos: n.TokPos}
			var res *Val
			lt := fr.typeOf(n.Lhs[0])
			switch {
			case op == token.ADD && l.T.Sort == SStr:
				res = &Val{T: SeqCat(l.T, r.T), Ty: lt}
			case op == token.ADD:
				res = &Val{T: Arith("+", l.T, r.T), Ty: lt}
			case op == token.SUB:
				res = &Val{T: Arith("-", l.T, r.T), Ty: lt}
				if isUnsigned(lt) {
					x.safety(st, fr, Cmp(">=", res.T, IntLit(0)), "unsigned-underflow", be.OpPos)
				}
			case op == token.MUL:
				res = &Val{T: Arith("*", l.T, r.T), Ty: lt}
			}
			x.assignTo(n.Lhs[0], res, st, fr, false)
			k(st)
		})
		return
	}
	if len(n.Lhs) == 1 && len(n.Rhs) == 1 {
		if ix, ok := ast.Unparen(n.Lhs[0]).(*ast.IndexExpr); ok && isMapType(fr.typeOf(ix.X)) {
			// m[k] = v : the key expression may contain calls
			x.eval(ix.X, st, fr, func(st *St, m *Val) {
				x.eval(ix.Index, st, fr, func(st *St, key *Val) {
					x.eval(n.Rhs[0], st, fr, func(st *St, _ *Val) {
						if m.T == nil || m.T.Sort != SRef {
							oos("unsupported indexed assignment at %s", x.W.pos(n.Pos()))
						}
						x.safety(st, fr, Neq(m.T, Null), "nil-map-write", ix.Lbrack)
						g := x.W.GhostVars["maps"]
						x.checkWrite(st, g.Key, m.T, ix.Lbrack)
						old := st.field(g)
						nw := x.fresh(g.Key, old.Sort)
						x.assume(st, Eq(nw, Store(old, m.T, Store(Select(old, m.T), key.T, True))))
						st.heap[g.Key] = nw
						k(st)
					})
				})
			})
			return
		}
	}
	if len(n.Lhs) == len(n.Rhs) {
		x.evalArgs(n.Rhs, st, fr, func(st *St, vals []*Val) {
			for i, l := range n.Lhs {
				x.assignTo(l, vals[i], st, fr, define)
			}
			k(st)
		})
		return
	}
	if len(n.Rhs) != 1 {
		oos("unsupported assignment shape at %s", x.W.pos(n.Pos()))
	}
	// multi-value: call, comma-ok forms
	switch r := ast.Unparen(n.Rhs[0]).(type) {
	case *ast.IndexExpr:
		// v, ok := m[k]
		x.eval(r.X, st, fr, func(st *St, m *Val) {
			x.eval(r.Index, st, fr, func(st *St, key *Val) {
				if _, isMap := fr.typeOf(r.X).Underlying().(*types.Map); !isMap || m.T == nil {
					oos("comma-ok index of unsupported map at %s", x.W.pos(r.Pos()))
				}
				x.assignTo(n.Lhs[0], &Val{Ty: types.NewStruct(nil, nil), Fields: map[string]*Val{}}, st, fr, define)
				x.assignTo(n.Lhs[1], &Val{T: Select(x.mapSet(st, m), key.T), Ty: types.Typ[types.Bool]}, st, fr, define)
				k(st)
			})
		})
	case *ast.UnaryExpr:
		if r.Op == token.ARROW {
			x.recvStmt(r, n.Lhs, define, st, fr, k)
			return
		}
		oos("unsupported multi-value assignment at %s", x.W.pos(n.Pos()))
	default:
		x.eval(n.Rhs[0], st, fr, func(st *St, v *Val) {
			if v.Tuple == nil || len(v.Tuple) != len(n.Lhs) {
				oos("multi-value assignment from a non-tuple at %s", x.W.pos(n.Pos()))
			}
			for i, l := range n.Lhs {
				x.assignTo(l, v.Tuple[i], st, fr, define)
			}
			k(st)
		})
	}
}

// assignTo stores v into the l-value expression.
func (x *Exec) assignTo(l ast.Expr, v *Val, st *St, fr *Frame, define bool) {
	switch n := ast.Unparen(l).(type) {
	case *ast.Ident:
		if n.Name == "_" {
			return
		}
		var obj types.Object
		if define {
			obj = fr.info.Defs[n]
		}
		if obj == nil {
			obj = fr.info.Uses[n]
		}
		vo, ok := obj.(*types.Var)
		if !ok {
			oos("assignment to %s at %s", n.Name, x.W.pos(n.Pos()))
		}
		if vo.Parent() == vo.Pkg().Scope() {
			oos("assignment to package-level variable %s at %s", n.Name, x.W.pos(n.Pos()))
		}
		nv := x.coerce(st, v, fr.subst(vo.Type()))
		if nv.HBase != nil {
			nv = x.materialize(st, nv)
		}
		if nv.Ty == nil || v.Ty == nil || types.IsInterface(vo.Type()) == false {
			c := *nv
			c.Ty = fr.subst(vo.Type())
			if nv.Ty != nil && types.IsInterface(vo.Type()) {
				c.Ty = nv.Ty
			}
			nv = &c
		}
		st.vars[vo] = nv
	case *ast.SelectorExpr:
		sel := fr.info.Selections[n]
		if sel == nil || sel.Kind() != types.FieldVal {
			oos("unsupported assignment target at %s", x.W.pos(n.Pos()))
		}
		base := x.evalPure(n.X, st, fr)
		x.assignField(st, fr, base, fr.typeOf(n.X), sel, v, n.Sel.Pos())
	case *ast.IndexExpr:
		m := x.evalPure(n.X, st, fr)
		key := x.evalPure(n.Index, st, fr)
		if _, isMap := fr.typeOf(n.X).Underlying().(*types.Map); isMap && m.T != nil && m.T.Sort == SRef {
			x.safety(st, fr, Neq(m.T, Null), "nil-map-write", n.Lbrack)
			g := x.W.GhostVars["maps"]
			x.checkWrite(st, g.Key, m.T, n.Lbrack)
			old := st.field(g)
			nw := x.fresh(g.Key, old.Sort)
			x.assume(st, Eq(nw, Store(old, m.T, Store(Select(old, m.T), key.T, True))))
			st.heap[g.Key] = nw
			return
		}
		if _, isSlice := fr.typeOf(n.X).Underlying().(*types.Slice); isSlice && m.T != nil && m.T.Sort.IsSeq() && key.T != nil {
			// x.f[i] = v on a slice stored in a heap field (written in place: no alias of the slice is involved)
			if _, isField := ast.Unparen(n.X).(*ast.SelectorExpr); !isField {
				oos("element assignment to a slice that is not a struct field at %s (aliasing of slices is not modelled)", x.W.pos(n.Pos()))
			}
			x.safety(st, fr, And(Cmp("<=", IntLit(0), key.T), Cmp("<", key.T, SeqLen(m.T))), "index", n.Lbrack)
			et := fr.typeOf(n.X).Underlying().(*types.Slice).Elem()
			ev := x.coerce(st, v, et)
			ns := x.fresh("upd", m.T.Sort)
			j := Var("j$", SInt)
			x.assume(st, Eq(SeqLen(ns), SeqLen(m.T)))
			x.assume(st, Eq(SeqAt(ns, key.T), ev.T))
			x.assume(st, Forall([]*Term{j}, [][]*Term{{SeqAt(ns, j)}}, Implies(And(Cmp("<=", IntLit(0), j), Cmp("<", j, SeqLen(m.T)), Neq(j, key.T)), Eq(SeqAt(ns, j), SeqAt(m.T, j))), "seq_update"))
			x.assignTo(n.X, &Val{T: ns, Ty: fr.typeOf(n.X)}, st, fr, false)
			return
		}
		oos("unsupported indexed assignment at %s", x.W.pos(n.Pos()))
	default:
		oos("unsupported assignment target %T at %s", l, x.W.pos(l.Pos()))
	}
}

// assignField handles base.f = v where the selection may pass through embedded fields.
func (x *Exec) assignField(st *St, fr *Frame, base *Val, baseTy types.Type, sel *types.Selection, v *Val, p token.Pos) {
	cur := base
	curTy := baseTy
	idx := sel.Index()
	for i, ix := range idx {
		sty, ok := derefType(curTy).Underlying().(*types.Struct)
		if !ok {
			oos("assignment through non-struct")
		}
		f := sty.Field(ix)
		last := i == len(idx)-1
		switch {
		case cur.Fields != nil:
			if last {
				// updating a field of a local struct value: find the variable — only direct locals supported
				cur.Fields[f.Name()] = x.coerce(st, v, f.Type())
				return
			}
			cur = cur.Fields[f.Name()]
		case cur.HBase != nil:
			if last {
				x.storeVal(st, fr, cur.HStruct, cur.HPath+"."+f.Name(), f.Type(), cur.HBase, v, p)
				return
			}
			cur = x.viewStep(st, &Val{HBase: cur.HBase, HStruct: cur.HStruct, HPath: cur.HPath + "." + f.Name(), Ty: f.Type()}, nil)
		default:
			if cur.T == nil || cur.T.Sort != SRef {
				oos("assignment through unsupported value")
			}
			x.safety(st, fr, Neq(cur.T, Null), "nil", p)
			if last {
				x.storeVal(st, fr, derefType(curTy), f.Name(), f.Type(), cur.T, v, p)
				return
			}
			cur = x.viewStep(st, &Val{HBase: cur.T, HStruct: derefType(curTy), HPath: f.Name(), Ty: f.Type()}, nil)
		}
		curTy = f.Type()
	}
}

// ---------- loops ----------

// assignedIn collects local variables assigned within the statements (excluding those declared inside).
func (x *Exec) assignedIn(nodes []ast.Node, fr *Frame) []*types.Var {
	seen := map[*types.Var]bool{}
	declared := map[types.Object]bool{}
	var out []*types.Var
	add := func(e ast.Expr) {
		if id, ok := ast.Unparen(e).(*ast.Ident); ok {
			if o, ok := fr.info.Uses[id].(*types.Var); ok && !seen[o] && !declared[o] {
				if o.Pkg() != nil && o.Parent() != o.Pkg().Scope() {
					seen[o] = true
					out = append(out, o)
				}
			}
			if o := fr.info.Defs[id]; o != nil {
				declared[o] = true
			}
		}
		// assignment to a field of a local struct value
		if se, ok := ast.Unparen(e).(*ast.SelectorExpr); ok {
			if id, ok := ast.Unparen(se.X).(*ast.Ident); ok {
				if o, ok := fr.info.Uses[id].(*types.Var); ok && !seen[o] && !declared[o] {
					if _, isStruct := isStructVal(o.Type()); isStruct {
						seen[o] = true
						out = append(out, o)
					}
				}
			}
		}
	}
	for _, nd := range nodes {
		if nd == nil {
			continue
		}
		ast.Inspect(nd, func(n ast.Node) bool {
			switch s := n.(type) {
			case *ast.AssignStmt:
				for _, l := range s.Lhs {
					add(l)
				}
			case *ast.IncDecStmt:
				add(s.X)
			case *ast.RangeStmt:
				if s.Tok == token.ASSIGN {
					if s.Key != nil {
						add(s.Key)
					}
					if s.Value != nil {
						add(s.Value)
					}
				}
			case *ast.FuncLit:
				return true
			}
			return true
		})
	}
	// calls of closures bound to locals may assign captured variables: include variables assigned in any FuncLit of the enclosing function called here
	return out
}

// effectsOf computes the heap/ghost fields possibly written by the nodes: key -> locations (nil element = whole field).
func (x *Exec) effectsOf(nodes []ast.Node, st *St, fr *Frame, tainted map[*types.Var]bool, depth int) map[string][]*Term {
	eff := map[string][]*Term{}
	addLoc := func(key string, loc *Term) {
		eff[key] = append(eff[key], loc)
	}
	var pureLoc func(e ast.Expr, f *Frame) *Term
	pureLoc = func(e ast.Expr, f *Frame) (res *Term) {
		// evaluate e as a loop-invariant reference if it mentions no tainted variable and no call
		bad := false
		ast.Inspect(e, func(n ast.Node) bool {
			switch v := n.(type) {
			case *ast.Ident:
				if o, ok := f.info.Uses[v].(*types.Var); ok && tainted[o] {
					bad = true
				}
			case *ast.CallExpr:
				bad = true
			}
			return !bad
		})
		if bad {
			return nil
		}
		defer func() {
			if r := recover(); r != nil {
				res = nil
			}
		}()
		sub := st.clone()
		saved := x.Obls
		v := x.evalPure(e, sub, f)
		x.Obls = saved
		if v.T != nil && v.T.Sort == SRef {
			return v.T
		}
		if v.HBase != nil {
			return v.HBase
		}
		return nil
	}
	var scan func(nodes []ast.Node, f *Frame, depth int, bind map[types.Object]ast.Expr)
	scan = func(nodes []ast.Node, f *Frame, depth int, bind map[types.Object]ast.Expr) {
		for _, nd := range nodes {
			if nd == nil {
				continue
			}
			ast.Inspect(nd, func(n ast.Node) bool {
				switch s := n.(type) {
				case *ast.AssignStmt:
					for _, l := range s.Lhs {
						if se, ok := ast.Unparen(l).(*ast.SelectorExpr); ok {
							if sel := f.info.Selections[se]; sel != nil && sel.Kind() == types.FieldVal {
								x.fieldWriteEffect(se, sel, f, bind, depth, pureLoc, addLoc)
							}
						}
						if ix, ok := ast.Unparen(l).(*ast.IndexExpr); ok {
							if t := f.info.TypeOf(ix.X); t != nil && isMapType(t) {
								addLoc("$g.maps", nil) // a map element is written
							}
						}
					}
				case *ast.IncDecStmt:
					if se, ok := ast.Unparen(s.X).(*ast.SelectorExpr); ok {
						if sel := f.info.Selections[se]; sel != nil && sel.Kind() == types.FieldVal {
							x.fieldWriteEffect(se, sel, f, bind, depth, pureLoc, addLoc)
						}
					}
				case *ast.CallExpr:
					x.callEffect(s, f, st, depth, bind, pureLoc, addLoc, scan)
				case *ast.UnaryExpr:
					// ghost variables updated by the receiver ("receives") of the protocol of the channel received from
					if s.Op == token.ARROW && depth == 0 {
						root := ast.Unparen(s.X)
						if ix, ok := root.(*ast.IndexExpr); ok {
							root = ast.Unparen(ix.X)
						}
						if id, ok := root.(*ast.Ident); ok {
							if cd := x.carryDecl(f, id.Name); cd != nil {
								if cc := x.W.CS.ByKey["chan."+cd.Proto]; cc != nil {
									for _, r := range cc.Receives {
										if g, ok := x.W.GhostVars[r.Var]; ok {
											addLoc(g.Key, nil)
										}
									}
								}
							}
						}
					}
				case *ast.SendStmt:
					// ghost variables recorded by the protocol of the channel sent on
					if id, ok := ast.Unparen(s.Chan).(*ast.Ident); ok && depth == 0 {
						if cd := x.carryDecl(f, id.Name); cd != nil {
							if cc := x.W.CS.ByKey["chan."+cd.Proto]; cc != nil {
								for _, r := range cc.Records {
									if g, ok := x.W.GhostVars[r.Var]; ok {
										addLoc(g.Key, nil)
									}
								}
							}
						}
					}
				}
				return true
			})
		}
	}
	scan(nodes, fr, depth, nil)
	return eff
}

func (x *Exec) fieldWriteEffect(se *ast.SelectorExpr, sel *types.Selection, f *Frame, bind map[types.Object]ast.Expr, depth int,
	pureLoc func(ast.Expr, *Frame) *Term, addLoc func(string, *Term)) {
	// determine the struct owning the leaf and the base reference expression
	recvTy := f.typeOf(se.X)
	// struct-valued local: no heap effect
	if _, isStruct := isStructVal(recvTy); isStruct {
		if _, isPtr := recvTy.Underlying().(*types.Pointer); !isPtr {
			if inner, ok := ast.Unparen(se.X).(*ast.SelectorExpr); ok {
				// x.a.b = v where x.a is a struct-valued field of a heap object
				if isel := f.info.Selections[inner]; isel != nil {
					keys := x.fieldKeysUnder(derefType(f.typeOf(inner.X)), inner.Sel.Name+"."+se.Sel.Name, nil)
					var loc *Term
					if depth == 0 || bind == nil {
						loc = pureLoc(inner.X, f)
					}
					for _, k := range keys {
						addLoc(k.key, loc)
					}
				}
			}
			return
		}
	}
	// walk embedded path: only the final owner matters
	owner := derefType(recvTy)
	idx := sel.Index()
	for i := 0; i < len(idx)-1; i++ {
		sty := owner.Underlying().(*types.Struct)
		owner = derefType(sty.Field(idx[i]).Type())
	}
	var loc *Term
	if len(idx) == 1 && bind == nil {
		loc = pureLoc(se.X, f)
	}
	defer func() { recover() }()
	for _, k := range x.fieldKeysUnder(owner, se.Sel.Name, nil) {
		addLoc(k.key, loc)
	}
}

func (x *Exec) callEffect(call *ast.CallExpr, f *Frame, st *St, depth int, bind map[types.Object]ast.Expr,
	pureLoc func(ast.Expr, *Frame) *Term, addLoc func(string, *Term), scan func([]ast.Node, *Frame, int, map[types.Object]ast.Expr)) {
	fun := ast.Unparen(call.Fun)
	if depth == 0 && x.C != nil && !f.inlined {
		for _, h := range x.afterHooksFor(call, f) {
			if g, ok := x.W.GhostVars[h.Var]; ok {
				addLoc(g.Key, nil)
			}
		}
	}
	var obj *types.Func
	var recvExpr ast.Expr
	switch fn := fun.(type) {
	case *ast.Ident:
		obj, _ = f.info.Uses[fn].(*types.Func)
		if v, ok := f.info.Uses[fn].(*types.Var); ok {
			if fv, ok := st.vars[v]; ok && fv.Fn != nil && fv.Fn.Lit != nil && depth < 4 {
				scan([]ast.Node{fv.Fn.Lit.Body}, f, depth+1, map[types.Object]ast.Expr{})
			} else if ok && fv != nil && fv.Proto != "" {
				x.protoEffect(fv, addLoc)
			} else if pc := x.paramProtoOf(v.Name()); pc != "" {
				x.protoEffect(&Val{Proto: pc, Ty: v.Type()}, addLoc)
			}
		}
	case *ast.SelectorExpr:
		if sel := f.info.Selections[fn]; sel != nil && sel.Kind() == types.MethodVal {
			obj = sel.Obj().(*types.Func)
			recvExpr = fn.X
		} else if o, ok := f.info.Uses[fn.Sel].(*types.Func); ok {
			obj = o
		}
	}
	if obj == nil {
		return
	}
	sig := obj.Type().(*types.Signature)
	var objs []*types.Func
	if sig.Recv() != nil {
		if iface, ok := sig.Recv().Type().Underlying().(*types.Interface); ok {
			ikey := KeyOfFunc(obj)
			if named, ok := sig.Recv().Type().(*types.Named); ok {
				ikey = pkgShort(named.Obj().Pkg()) + "." + named.Obj().Name() + "." + obj.Name()
			}
			if c := x.W.CS.ByKey[ikey]; c != nil {
				x.contractEffect(c, obj, nil, call, recvExpr, f, depth, bind, pureLoc, addLoc)
				return
			}
			for _, n := range x.implementers(iface, obj.Name(), obj.Pkg()) {
				m, _, _ := types.LookupFieldOrMethod(types.NewPointer(n), true, n.Obj().Pkg(), obj.Name())
				if mf, ok := m.(*types.Func); ok {
					objs = append(objs, mf)
				}
			}
		}
	}
	if objs == nil {
		objs = []*types.Func{obj}
	}
	for _, o := range objs {
		key := KeyOfFunc(o)
		c := x.W.CS.ByKey[key]
		fi := x.W.ByObj[o.Origin()]
		switch {
		case c != nil && (!(c.Flags["inline"] || c.Flags["helper"]) || fi == nil):
			x.contractEffect(c, o, fi, call, recvExpr, f, depth, bind, pureLoc, addLoc)
		case fi != nil && depth < 4:
			nf := &Frame{fi: fi, info: fi.Pkg.TypesInfo}
			scan([]ast.Node{fi.Decl.Body}, nf, depth+1, map[types.Object]ast.Expr{})
		}
	}
}

// paramProtoOf: the protocol the contract under verification (or, for a closure, its enclosing function's) declares for
// a function-typed parameter or captured variable.
func (x *Exec) paramProtoOf(name string) string {
	if x.C != nil {
		if p, ok := x.C.ParamProto[name]; ok {
			return x.W.protoOf(p)
		}
	}
	if x.Fn != nil && x.Fn.Lit != nil {
		if i := strings.LastIndex(x.Fn.Key, "#"); i > 0 {
			if pc := x.W.CS.ByKey[x.Fn.Key[:i]]; pc != nil {
				if p, ok := pc.ParamProto[name]; ok {
					return x.W.protoOf(p)
				}
			}
		}
	}
	return ""
}

// protoEffect: what a call of a function value obeying a protocol / bound to a stream may modify (whole fields and
// ghost variables), for the havoc at loop heads.
func (x *Exec) protoEffect(fv *Val, addLoc func(string, *Term)) {
	kind, name, _ := strings.Cut(fv.Proto, ".")
	addItems := func(items []*ModItem, pnames []string) {
		names := map[string]*Val{}
		if sig, ok := fv.Ty.Underlying().(*types.Signature); ok {
			for i, pn := range pnames {
				if i < sig.Params().Len() {
					pt := sig.Params().At(i).Type()
					if s, ok := x.W.SortOf(pt); ok {
						names[pn] = &Val{T: x.fresh("any", s), Ty: pt}
					}
				}
			}
		}
		env := &CEnv{X: x, Names: names, St: x.entry, Pkg: x.W.mainPkg()}
		for _, m := range items {
			func() {
				defer func() { recover() }()
				for _, t := range x.modTarget(m, env) {
					addLoc(t.key, nil)
				}
			}()
		}
	}
	addRecs := func(sc *Contract) {
		func() {
			defer func() { recover() }()
			for _, g := range x.recordVars(sc) {
				addLoc(g.Key, nil)
			}
		}()
	}
	switch kind {
	case "protocol":
		if c := x.W.CS.ByKey[fv.Proto]; c != nil {
			addItems(c.Modifies, c.Params)
		}
	case "next":
		if sc := x.W.CS.ByKey["stream."+name]; sc != nil {
			addItems(sc.Resumes, nil)
			addRecs(sc)
		}
	case "yield":
		if sc := x.W.CS.ByKey["stream."+name]; sc != nil {
			addItems(sc.Modifies, nil)
			addRecs(sc)
		}
	}
}

func (x *Exec) contractEffect(c *Contract, obj *types.Func, fi *FuncInfo, call *ast.CallExpr, recvExpr ast.Expr, f *Frame, depth int,
	bind map[types.Object]ast.Expr, pureLoc func(ast.Expr, *Frame) *Term, addLoc func(string, *Term)) {
	recvName, pnames := x.paramNames(c, obj, fi)
	names := map[string]*Val{}
	exact := depth == 0 && bind == nil
	ok := true
	bindOne := func(name string, e ast.Expr) {
		if name == "" || name == "_" || e == nil {
			return
		}
		if exact {
			if t := pureLoc(e, f); t != nil {
				names[name] = &Val{T: t, Ty: f.typeOf(e)}
				return
			}
		}
		// unknown: a placeholder that makes location evaluation yield "whole field"
		names[name] = nil
	}
	bindOne(recvName, recvExpr)
	for i, a := range call.Args {
		if i < len(pnames) {
			bindOne(pnames[i], a)
		}
	}
	_ = ok
	pkg := x.Fn.Pkg
	if fi != nil {
		pkg = fi.Pkg
	}
	if len(c.Joins) > 0 {
		// started with go, a body that joins a WaitGroup uses up one of its announcements (see joinEffects)
		if f := x.W.Fields["sync.WaitGroup.spawned"]; f != nil {
			addLoc(f.Key, nil)
		}
	}
	for _, m := range c.Modifies {
		func() {
			defer func() {
				if r := recover(); r != nil {
					// location not evaluable here: fall back to whole fields by type
					x.wholeFieldFallback(m, c, obj, fi, pkg, addLoc)
				}
			}()
			env := &CEnv{X: x, Names: map[string]*Val{}, St: x.entry, Pkg: pkg}
			for k, v := range names {
				if v == nil {
					panic(ctransErr{"unknown " + k})
				}
				env.Names[k] = v
			}
			for _, t := range x.modTarget(m, env) {
				addLoc(t.key, t.loc)
			}
		}()
	}
}

// wholeFieldFallback resolves a location-form modifies item to whole fields using static types only.
func (x *Exec) wholeFieldFallback(m *ModItem, c *Contract, obj *types.Func, fi *FuncInfo, pkg interface{}, addLoc func(string, *Term)) {
	sig := obj.Type().(*types.Signature)
	recvName, pnames := x.paramNames(c, obj, fi)
	names := map[string]*Val{}
	if sig.Recv() != nil && recvName != "" {
		names[recvName] = &Val{T: x.fresh("any", SRef), Ty: sig.Recv().Type()}
	}
	for i, pn := range pnames {
		if i < sig.Params().Len() && pn != "_" {
			pt := sig.Params().At(i).Type()
			if s, ok := x.W.SortOf(pt); ok {
				names[pn] = &Val{T: x.fresh("any", s), Ty: pt}
			}
		}
	}
	var p = x.Fn.Pkg
	if fi != nil {
		p = fi.Pkg
	}
	env := &CEnv{X: x, Names: names, St: x.entry, Pkg: p}
	defer func() { recover() }()
	for _, t := range x.modTarget(m, env) {
		addLoc(t.key, nil)
	}
}

// loopHavoc havocs what the loop may change and returns the havoced state.
func (x *Exec) loopHavoc(st *St, fr *Frame, nodes []ast.Node, key string) {
	vars := x.assignedIn(nodes, fr)
	tainted := map[*types.Var]bool{}
	for _, v := range vars {
		tainted[v] = true
	}
	eff := x.effectsOf(nodes, st, fr, tainted, 0)
	for _, v := range vars {
		if old, ok := st.vars[v]; ok {
			if old.Fn != nil {
				continue
			}
			st.vars[v] = x.freshVal(st, v.Name(), fr.subst(v.Type()))
		}
	}
	var havoced []*FieldInfo
	keys := make([]string, 0, len(eff))
	for k := range eff {
		keys = append(keys, k)
	}
	sort.Strings(keys)
	for _, k := range keys {
		locs := eff[k]
		if strings.HasPrefix(k, "$g.") {
			g := x.W.GhostVars[strings.TrimPrefix(k, "$g.")]
			st.heap[k] = x.fresh(k, g.Sort)
			continue
		}
		f := x.W.Fields[k]
		old := st.field(f)
		// all writes at one loop-invariant location?
		var loc *Term
		single := true
		for _, l := range locs {
			if l == nil {
				single = false
				break
			}
			if loc == nil {
				loc = l
			} else if loc.String() != l.String() {
				single = false
				break
			}
		}
		nw := x.fresh(k, old.Sort)
		if single && loc != nil {
			v := x.fresh(k+".val", f.Sort)
			if isUnsigned(f.Ty) {
				x.assume(st, Cmp(">=", v, IntLit(0)))
			}
			x.assume(st, Eq(nw, Store(old, loc, v)))
		}
		st.heap[k] = nw
		havoced = append(havoced, f)
	}
	// allocation inside the loop
	x.havocAlloc(st)
	for _, f := range havoced {
		x.heapTyping(st, f, st.field(f))
	}
	st.wfKnown = false
	st.note("loop %s: havoc %d variables, fields %v", key, len(vars), keys)
}

func (x *Exec) loopContract(fr *Frame, s ast.Stmt) (*Contract, string) {
	ord := fr.fi.Loops[s]
	key := fmt.Sprintf("%s#%d", fr.fi.Key, ord)
	if c, ok := x.W.CS.ByKey[key]; ok && c.Kind == "loop" {
		return c, key
	}
	// where loop n and function literal n of one function would share a key, the loop is written F#loop<n>
	if c, ok := x.W.CS.ByKey[fmt.Sprintf("%s#loop%d", fr.fi.Key, ord)]; ok && c.Kind == "loop" {
		return c, c.Key
	}
	if i := strings.Index(fr.fi.Key, "["); i >= 0 && x.inst != "" {
		// loop of a generic function (or of a closure in it): the template contract carries $T
		fk := fr.fi.Key[:i]
		if j := strings.Index(fr.fi.Key, "]"); j > i {
			fk += fr.fi.Key[j+1:]
		}
		base := fmt.Sprintf("%s#%d", fk, ord)
		if t, ok := x.W.CS.ByKey[base]; ok {
			c := instantiateContract(t, x.inst, x.W.CS)
			x.W.CS.ByKey[key] = c
			return c, key
		}
	}
	return nil, key
}

func (x *Exec) localNames(st *St, fr *Frame, extra map[string]*Val) map[string]*Val {
	names := map[string]*Val{}
	for k, v := range x.entryNames {
		names[k] = v
	}
	// the variables of the function the frame belongs to (for a closure: of the enclosing declaration, which holds the
	// captured variables too); variables of inlined callees are not visible to this function's clauses. Where a name is
	// declared twice (shadowing), the later declaration wins; the order is deterministic.
	var lo, hi token.Pos
	if fr != nil && fr.fi != nil && fr.fi.Decl != nil {
		lo, hi = fr.fi.Decl.Pos(), fr.fi.Decl.End()
	}
	type cand struct {
		vo *types.Var
		v  *Val
	}
	var cs []cand
	for o, v := range st.vars {
		if vo, ok := o.(*types.Var); ok && v != nil {
			if lo.IsValid() && vo.Pos().IsValid() && (vo.Pos() < lo || vo.Pos() >= hi) {
				continue
			}
			cs = append(cs, cand{vo, v})
		}
	}
	sort.Slice(cs, func(i, j int) bool { return cs[i].vo.Pos() < cs[j].vo.Pos() })
	for _, c := range cs {
		names[c.vo.Name()] = c.v
	}
	for k, v := range extra {
		names[k] = v
	}
	return names
}

func (x *Exec) invEnv(st *St, fr *Frame, extra map[string]*Val) *CEnv {
	old := &CEnv{X: x, Names: x.entryNames, St: x.entry, Pkg: fr.fi.Pkg}
	return &CEnv{X: x, Names: x.localNames(st, fr, extra), St: st, Pkg: fr.fi.Pkg, Old: old}
}

func (x *Exec) checkInvariants(st *St, fr *Frame, c *Contract, key, phase string, extra map[string]*Val, p token.Pos) {
	if c == nil {
		return
	}
	env := x.invEnv(st, fr, extra)
	x.wrapCfail("invariant of "+key, func() {
		for _, inv := range c.Invariants {
			x.emit(st, oblTemplate{kind: "inv-" + phase, label: inv.Label, clause: inv.Text, props: inv.Props, pos: x.W.pos(p),
				name: fr.fi.Key + "/loop#" + key[strings.LastIndex(key, "#")+1:] + "/inv-" + phase + "#" + inv.Label}, nil, env.Formula(inv.Expr))
		}
	})
}

func (x *Exec) assumeInvariants(st *St, fr *Frame, c *Contract, key string, extra map[string]*Val) {
	if c == nil {
		return
	}
	env := x.invEnv(st, fr, extra)
	x.wrapCfail("invariant of "+key, func() {
		for _, inv := range c.Invariants {
			x.assume(st, env.HypFormula(inv.Expr))
		}
	})
}

func (x *Exec) loopMeasure(st *St, fr *Frame, c *Contract, key string, extra map[string]*Val) *Term {
	if c == nil || c.Decreases == nil {
		return nil
	}
	var m *Term
	x.wrapCfail("decreases of "+key, func() { m = x.invEnv(st, fr, extra).tr(c.Decreases.Expr).T })
	if m == nil || m.Sort != SInt {
		cfail("loop measure of %s must be an integer", key)
	}
	return m
}

// forIndex: a counting loop "for i := 0; i < n; i++" written where a range loop could stand: its counter is what the
// invariants of a range loop call $i (the number of completed iterations), so that a loop contract survives the rewrite
// of a range loop into an index loop and back.
func forIndex(n *ast.ForStmt, fr *Frame) types.Object {
	as, ok := n.Init.(*ast.AssignStmt)
	if !ok || as.Tok != token.DEFINE || len(as.Lhs) != 1 || len(as.Rhs) != 1 {
		return nil
	}
	id, ok := as.Lhs[0].(*ast.Ident)
	if !ok {
		return nil
	}
	if lit, ok := as.Rhs[0].(*ast.BasicLit); !ok || lit.Value != "0" {
		return nil
	}
	inc, ok := n.Post.(*ast.IncDecStmt)
	if !ok || inc.Tok != token.INC {
		return nil
	}
	if pid, ok := inc.X.(*ast.Ident); !ok || pid.Name != id.Name {
		return nil
	}
	return fr.info.Defs[id]
}

func (x *Exec) forStmt(n *ast.ForStmt, st *St, fr *Frame, k func(*St)) {
	c, key := x.loopContract(fr, n)
	label := fr.label
	idxObj := forIndex(n, fr)
	idx := func(s *St) map[string]*Val {
		if idxObj == nil {
			return nil
		}
		if v, ok := s.vars[idxObj]; ok && v != nil {
			return map[string]*Val{"$i": v}
		}
		return nil
	}
	run := func(st *St) {
		if c == nil && !fr.inlined {
			x.Notes = append(x.Notes, "loop "+key+" has no invariant")
		}
		x.checkInvariants(st, fr, c, key, "init", idx(st), n.Pos())
		x.assertWF(st, "loop#"+key, x.W.pos(n.Pos()))
		nodes := []ast.Node{n.Body}
		if n.Post != nil {
			nodes = append(nodes, n.Post)
		}
		if n.Cond != nil {
			nodes = append(nodes, n.Cond)
		}
		hv := st.clone()
		x.loopHavoc(hv, fr, nodes, key)
		if idxObj != nil {
			// a counting loop "for i := 0; i < len(s); i++" whose body assigns neither i nor s: 0 <= i <= len(s) at every
			// loop head (what a range loop gives for free)
			bodyAssigns := map[types.Object]bool{}
			for _, v := range x.assignedIn([]ast.Node{n.Body}, fr) {
				bodyAssigns[v] = true
			}
			if iv, ok := hv.vars[idxObj]; ok && iv != nil && iv.T != nil && !bodyAssigns[idxObj] {
				x.assume(hv, Cmp("<=", IntLit(0), iv.T))
				if be, ok := n.Cond.(*ast.BinaryExpr); ok && be.Op == token.LSS {
					if l, ok := be.X.(*ast.Ident); ok && fr.info.Uses[l] == idxObj {
						if call, ok := be.Y.(*ast.CallExpr); ok && len(call.Args) == 1 {
							if fn, ok := call.Fun.(*ast.Ident); ok && fn.Name == "len" && fr.info.Uses[fn] == types.Universe.Lookup("len") {
								if sid, ok := call.Args[0].(*ast.Ident); ok {
									if so := fr.info.Uses[sid]; so != nil && !bodyAssigns[so] {
										if sv, ok := hv.vars[so]; ok && sv != nil && sv.T != nil && sv.T.Sort.IsSeq() {
											x.assume(hv, Cmp("<=", iv.T, SeqLen(sv.T)))
										}
									}
								}
							}
						}
					}
				}
			}
		}
		x.assumeInvariants(hv, fr, c, key, idx(hv))
		x.assumeWF(hv)
		var m0 *Term
		if c != nil && c.Decreases != nil {
			m0 = x.loopMeasure(hv, fr, c, key, idx(hv))
		}
		afterCond := func(hv *St, cond *Term) {
			// exit path
			ex := hv.clone()
			x.assume(ex, Not(cond))
			if !ex.dead {
				ex.note("loop %s: exit", key)
				k(ex)
			}
			// body path
			body := hv.clone()
			x.assume(body, cond)
			if body.dead {
				return
			}
			body.note("loop %s: arbitrary iteration", key)
			endIter := func(st *St) {
				after := func(st *St) {
					x.checkInvariants(st, fr, c, key, "keep", idx(st), n.Pos())
					x.assertWF(st, "loop#"+key+"/keep", x.W.pos(n.Pos()))
					if m0 != nil {
						m1 := x.loopMeasure(st, fr, c, key, idx(st))
						x.emit(st, oblTemplate{kind: "decreases", label: "loop", clause: c.Decreases.Text, pos: x.W.pos(n.Pos()),
							name: fr.fi.Key + "/loop#" + key[strings.LastIndex(key, "#")+1:] + "/decreases"}, nil, And(Cmp("<", m1, m0), Cmp(">=", m0, IntLit(0))))
					}
				}
				if n.Post != nil {
					x.stmt(n.Post, st, fr, after)
				} else {
					after(st)
				}
			}
			lfr := fr.withLoop(k, endIter, label)
			x.block(n.Body.List, body, lfr, endIter)
		}
		if n.Cond == nil {
			afterCond(hv, True)
			return
		}
		x.eval(n.Cond, hv, fr, func(hv *St, cv *Val) { afterCond(hv, cv.T) })
	}
	if n.Init != nil {
		x.stmt(n.Init, st, fr, run)
		return
	}
	run(st)
}

func isMapType(t types.Type) bool { _, ok := t.Underlying().(*types.Map); return ok }

// seqLiteralParts returns the elements of a sequence term built from units.
func seqLiteralParts(t *Term) ([]*Term, bool) {
	var out []*Term
	for _, p := range catParts(t) {
		if p.Op != "unit."+string(t.Sort) {
			if t.Sort == SStr {
				if s, ok := p.StrVal(); ok {
					for i := 0; i < len(s); i++ {
						out = append(out, IntLit(int64(s[i])))
					}
					continue
				}
			}
			return nil, false
		}
		out = append(out, p.Args[0])
	}
	return out, true
}

func (x *Exec) rangeStmt(n *ast.RangeStmt, st *St, fr *Frame, k func(*St)) {
	c, key := x.loopContract(fr, n)
	label := fr.label
	rty := fr.typeOf(n.X)
	// range over a function (iterator)
	if _, isSig := rty.Underlying().(*types.Signature); isSig {
		x.rangeIter(n, st, fr, k)
		return
	}
	x.eval(n.X, st, fr, func(st *St, rv *Val) {
		define := n.Tok == token.DEFINE
		isInt := false
		isMapRange := false
		var seq *Term
		var count *Term
		switch {
		case rv.T != nil && rv.T.Sort == SInt:
			isInt = true
			count = rv.T
		case rv.T != nil && rv.T.Sort.IsSeq():
			seq = rv.T
			count = SeqLen(seq)
		case rv.T != nil && (rv.T.Sort == SSetStr || isMapType(rty)):
			// range over a map[string]struct{}: the keys in an arbitrary order without repetition (the set as it is at loop entry)
			if n.Value != nil {
				oos("range over a map with a value variable at %s", x.W.pos(n.Pos()))
			}
			set := x.mapSet(st, rv)
			ks := x.fresh("$keys", SSeqStr)
			xv := Var("x$", SStr)
			x.assume(st, Forall([]*Term{xv}, [][]*Term{{SeqContains(ks, xv)}, {Select(set, xv)}}, Iff(SeqContains(ks, xv), Select(set, xv)), "mapkeys"))
			iv, jv := Var("i$", SInt), Var("j$", SInt)
			x.assume(st, Forall([]*Term{iv, jv}, [][]*Term{{SeqAt(ks, iv), SeqAt(ks, jv)}},
				Implies(And(Cmp("<=", IntLit(0), iv), Cmp("<", iv, jv), Cmp("<", jv, SeqLen(ks))), Neq(SeqAt(ks, iv), SeqAt(ks, jv))), "mapkeys_distinct"))
			isMapRange = true
			seq = ks
			count = SeqLen(ks)
		default:
			oos("range over unsupported value at %s", x.W.pos(n.Pos()))
		}
		bindIter := func(st *St, i *Term) {
			if isMapRange {
				if n.Key != nil {
					x.assignTo(n.Key, &Val{T: SeqAt(seq, i), Ty: types.Typ[types.String]}, st, fr, define)
				}
				return
			}
			if n.Key != nil {
				x.assignTo(n.Key, &Val{T: i, Ty: types.Typ[types.Int]}, st, fr, define)
			}
			if n.Value != nil && !isInt {
				ev := &Val{T: SeqAt(seq, i), Ty: elemType(rv.Ty)}
				if strings.HasPrefix(rv.Proto, "each.") {
					ev.Proto = strings.TrimPrefix(rv.Proto, "each.")
				}
				x.assignTo(n.Value, ev, st, fr, define)
			}
		}
		// unroll literal sequences when there is no loop contract
		if c == nil && seq != nil {
			if parts, ok := seqLiteralParts(seq); ok {
				var step func(i int, st *St)
				step = func(i int, st *St) {
					if i == len(parts) {
						k(st)
						return
					}
					if n.Key != nil {
						x.assignTo(n.Key, &Val{T: IntLit(int64(i)), Ty: types.Typ[types.Int]}, st, fr, define)
					}
					if n.Value != nil {
						x.assignTo(n.Value, &Val{T: parts[i], Ty: elemType(rv.Ty)}, st, fr, define)
					}
					next := func(st *St) { step(i+1, st) }
					lfr := fr.withLoop(k, next, label)
					st.note("range %s: unrolled iteration %d", key, i)
					x.block(n.Body.List, st, lfr, next)
				}
				step(0, st)
				return
			}
		}
		if c == nil && !fr.inlined {
			x.Notes = append(x.Notes, "loop "+key+" has no invariant")
		}
		intTy := types.Typ[types.Int]
		var keysVal *Val
		if isMapRange {
			keysVal = &Val{T: seq, Ty: types.NewSlice(types.Typ[types.String])}
		}
		withKeys := func(m map[string]*Val) map[string]*Val {
			if keysVal != nil {
				m["$keys"] = keysVal
			}
			// $n: the number of iterations the range was entered with (the integer ranged over, or the length of the
			// sequence), so that an invariant need not name the local that holds it
			m["$n"] = &Val{T: count, Ty: intTy}
			return m
		}
		x.checkInvariants(st, fr, c, key, "init", withKeys(map[string]*Val{"$i": {T: IntLit(0), Ty: intTy}}), n.Pos())
		x.assertWF(st, "loop#"+key, x.W.pos(n.Pos()))
		hv := st.clone()
		x.loopHavoc(hv, fr, []ast.Node{n.Body}, key)
		// exit
		ex := hv.clone()
		x.assumeInvariants(ex, fr, c, key, withKeys(map[string]*Val{"$i": {T: count, Ty: intTy}}))
		x.assumeWF(ex)
		if !ex.dead {
			ex.note("range %s: exit after %s iterations", key, short(count))
			k(ex)
		}
		// arbitrary iteration
		i := x.fresh("$i", SInt)
		body := hv
		x.assume(body, Cmp("<=", IntLit(0), i))
		x.assume(body, Cmp("<", i, count))
		x.assumeInvariants(body, fr, c, key, withKeys(map[string]*Val{"$i": {T: i, Ty: intTy}}))
		x.assumeWF(body)
		if body.dead {
			return
		}
		bindIter(body, i)
		body.note("range %s: arbitrary iteration %s", key, i.Op)
		endIter := func(st *St) {
			x.checkInvariants(st, fr, c, key, "keep", withKeys(map[string]*Val{"$i": {T: Arith("+", i, IntLit(1)), Ty: intTy}}), n.Pos())
			x.assertWF(st, "loop#"+key+"/keep", x.W.pos(n.Pos()))
		}
		lfr := fr.withLoop(k, endIter, label)
		x.block(n.Body.List, body, lfr, endIter)
	})
}
