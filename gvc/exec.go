package gvc

import (
	"fmt"
	"go/ast"
	"go/token"
	"go/types"
	"sort"
	"strings"
)

// Exec verifies one function: it symbolically executes the body and collects obligations.
type Exec struct {
	W             *World
	Fn            *FuncInfo
	C             *Contract
	Obls          []*Obligation
	ids           int
	entry         *St
	entryNames    map[string]*Val
	frameAll      map[string]bool    // whole-field / ghost modifies
	frameLocs     map[string][]*Term // field key -> allowed locations (entry-state terms)
	pure          bool               // spec-function mode: no obligations, no heap writes
	heapVars      map[string]*Term   // pure mode: field key -> bound array variable
	specFuel      *Term
	specSCC       map[string]bool
	canaryDone    bool
	ncanary       int
	nframes       int
	Notes         []string
	lemmaAxioms   []*Term
	inst          string          // type instance of a generic function under verification ("jsonNode")
	derived       *Contract       // "derived from": the source contract whose call stands for the body
	trivialSeen   map[string]bool // names of obligations whose goal was syntactically true on some path (recorded once)
	measure0      []measureComp
	NoTermination bool
	prodSubj      []*Val // closure producing a stream: the subjects (its YieldsArgs at entry)
}

func (x *Exec) nextID() int { x.ids++; return x.ids }

func (x *Exec) fresh(base string, s Sort) *Term {
	base = strings.Map(func(r rune) rune {
		if r == '|' || r == ' ' || r == '(' || r == ')' {
			return '_'
		}
		return r
	}, base)
	return Var(fmt.Sprintf("%s!%d", base, x.nextID()), s)
}

// ---------- obligations ----------

type oblTemplate struct {
	kind, label, clause, pos string
	props                    []string
	name                     string
}

func (x *Exec) emit(st *St, t oblTemplate, extra []*Term, goal *Term) {
	if x.pure {
		return
	}
	switch goal.Op {
	case "true":
		// A goal that is syntactically true on this path needs no solver, but its name is recorded: the obligation
		// baseline must not report a clause as "no longer generated" because an equivalent body makes it trivial.
		name := t.name
		if name == "" {
			name = x.Fn.Key + "/" + t.kind + "#" + t.label
		}
		if !x.trivialSeen[name] {
			if x.trivialSeen == nil {
				x.trivialSeen = map[string]bool{}
			}
			x.trivialSeen[name] = true
			x.Obls = append(x.Obls, &Obligation{Name: name, Func: x.Fn.Key, Kind: t.kind, Label: t.label, Props: t.props, Pos: t.pos, Clause: t.clause, Goal: True})
		}
		return
	case "and":
		for _, a := range goal.Args {
			x.emit(st, t, extra, a)
		}
		return
	case "=>":
		x.emit(st, t, append(append([]*Term(nil), extra...), splitAnd(goal.Args[0])...), goal.Args[1])
		return
	case "forall":
		m := map[string]*Term{}
		for _, v := range goal.Vars {
			m[v.Op] = x.fresh("sk."+strings.SplitN(v.Op, "$", 2)[0], v.Sort)
		}
		x.emit(st, t, extra, goal.Args[0].Subst(m))
		return
	case "exists":
		if len(goal.Wit) == len(goal.Vars) {
			m := map[string]*Term{}
			for i, v := range goal.Vars {
				m[v.Op] = goal.Wit[i]
			}
			x.emit(st, t, extra, goal.Args[0].Subst(m))
			return
		}
	case "=":
		if goal.Args[0].Sort.IsSeq() {
			goal = SeqEq(goal.Args[0], goal.Args[1])
		}
	case "ite":
	}
	name := t.name
	if name == "" {
		name = x.Fn.Key + "/" + t.kind + "#" + t.label
	}
	o := &Obligation{Name: name, Func: x.Fn.Key, Kind: t.kind, Label: t.label, Props: t.props, Pos: t.pos, Clause: t.clause,
		Hyps: append(append([]*Term(nil), st.pc...), extra...), Goal: goal, Trace: append([]string(nil), st.trace...)}
	x.Obls = append(x.Obls, o)
}

func splitAnd(t *Term) []*Term {
	if t.Op == "and" {
		var out []*Term
		for _, a := range t.Args {
			out = append(out, splitAnd(a)...)
		}
		return out
	}
	if t.Op == "true" {
		return nil
	}
	return []*Term{t}
}

func (x *Exec) assume(st *St, f *Term) {
	switch f.Op {
	case "true":
		return
	case "and":
		for _, a := range f.Args {
			x.assume(st, a)
		}
		return
	case "exists":
		m := map[string]*Term{}
		for _, v := range f.Vars {
			m[v.Op] = x.fresh("wit."+strings.SplitN(v.Op, "$", 2)[0], v.Sort)
		}
		x.assume(st, f.Args[0].Subst(m))
		return
	case "false":
		st.dead = true
	}
	// cheap pruning: the negation of f is already a hypothesis of this path
	neg := Not(f).String()
	for _, h := range st.pc {
		if h.Op == f.Op || h.Op == "not" || f.Op == "not" {
			if h.String() == neg {
				st.dead = true
				break
			}
		}
	}
	st.pc = append(st.pc, f)
}

func (x *Exec) safety(st *St, fr *Frame, cond *Term, what string, p token.Pos) {
	if x.pure || cond.Op == "true" {
		return
	}
	pos := x.W.posCol(p)
	x.emit(st, oblTemplate{kind: "safety", label: what, pos: pos, name: x.Fn.Key + "/safety#" + what + "@" + pos,
		clause: what + " at " + pos}, nil, cond)
	// after the check the condition may be assumed on this path
	x.assume(st, cond)
}

// ---------- values, fields ----------

func (x *Exec) zeroVal(ty types.Type) *Val {
	if s, ok := isStructVal(ty); ok {
		v := &Val{Ty: ty, Fields: map[string]*Val{}}
		for i := 0; i < s.NumFields(); i++ {
			f := s.Field(i)
			if _, supported := x.supported(f.Type()); supported {
				v.Fields[f.Name()] = x.zeroVal(f.Type())
			}
		}
		return v
	}
	s, ok := x.W.SortOf(ty)
	if !ok {
		return &Val{Ty: ty}
	}
	switch {
	case s == SInt:
		return &Val{T: IntLit(0), Ty: ty}
	case s == SBool:
		return &Val{T: False, Ty: ty}
	case s == SRef:
		return &Val{T: Null, Ty: ty}
	case s.IsSeq():
		return &Val{T: SeqEmpty(s), Ty: ty}
	case s == SSetStr:
		return &Val{T: emptySetStr(), Ty: ty}
	}
	return &Val{Ty: ty}
}

func emptySetStr() *Term { return mk("emptyset.Str", SSetStr) }

// mapSet returns the set of keys of a map value: package-level constant maps are set values, all others references.
func (x *Exec) mapSet(st *St, m *Val) *Term {
	if m.T.Sort == SSetStr {
		return m.T
	}
	return Select(st.field(x.W.GhostVars["maps"]), m.T)
}

// newMap allocates an empty map.
func (x *Exec) newMap(st *St, ty types.Type) *Val {
	r := x.fresh("new.map", SRef)
	al := st.alloc()
	x.assume(st, Neq(r, Null))
	x.assume(st, Not(Select(al, r)))
	nal := x.fresh("$alloc", al.Sort)
	x.assume(st, Eq(nal, Store(al, r, True)))
	st.heap["$alloc"] = nal
	st.fresh = append(st.fresh, r)
	g := x.W.GhostVars["maps"]
	old := st.field(g)
	nw := x.fresh(g.Key, old.Sort)
	x.assume(st, Eq(nw, Store(old, r, emptySetStr())))
	st.heap[g.Key] = nw
	return &Val{T: r, Ty: ty}
}

func (x *Exec) supported(ty types.Type) (Sort, bool) {
	if _, ok := isStructVal(ty); ok {
		return "", true
	}
	return x.W.SortOf(ty)
}

// freshVal returns an unconstrained symbolic value of a Go type (with range facts added to st).
func (x *Exec) freshVal(st *St, name string, ty types.Type) *Val {
	if s, ok := isStructVal(ty); ok {
		v := &Val{Ty: ty, Fields: map[string]*Val{}}
		for i := 0; i < s.NumFields(); i++ {
			f := s.Field(i)
			if _, supported := x.supported(f.Type()); supported {
				v.Fields[f.Name()] = x.freshVal(st, name+"."+f.Name(), f.Type())
			}
		}
		return v
	}
	s, ok := x.W.SortOf(ty)
	if !ok {
		return &Val{Ty: ty}
	}
	t := x.fresh(name, s)
	x.typeFacts(st, t, ty)
	return &Val{T: t, Ty: ty}
}

func (x *Exec) typeFacts(st *St, t *Term, ty types.Type) {
	if ty == nil {
		return
	}
	if isUnsigned(ty) {
		x.assume(st, Cmp(">=", t, IntLit(0)))
	}
	if p, ok := ty.Underlying().(*types.Pointer); ok {
		if _, isNamed := p.Elem().(*types.Named); isNamed {
			if _, isStruct := p.Elem().Underlying().(*types.Struct); isStruct {
				x.assume(st, Or(Eq(t, Null), Eq(mk("typeOf", SType, t), x.W.TypeConst(p.Elem()))))
			}
		}
	}
}

// selectField reads base.name. onDeref (may be nil) is told about the reference being dereferenced.
func (x *Exec) selectField(st *St, base *Val, name string, reads map[string]bool, onDeref func(*Term)) *Val {
	w := x.W
	if base.Fields != nil {
		f, ok := base.Fields[name]
		if !ok {
			cfail("no field %s in struct value", name)
		}
		return f
	}
	if base.HBase != nil {
		sty, _ := isStructVal(base.Ty)
		for i := 0; i < sty.NumFields(); i++ {
			if f := sty.Field(i); f.Name() == name {
				return x.viewStep(st, &Val{HBase: base.HBase, HStruct: base.HStruct, HPath: base.HPath + "." + name, Ty: f.Type()}, reads)
			}
		}
		// a ghost field of a library struct stored inline (c.mu.held)
		if g, ok := w.Fields[w.StructKey(base.HStruct)+"."+base.HPath+"."+name]; ok && g.Ghost {
			if reads != nil {
				reads[g.Key] = true
			}
			return &Val{T: Select(x.heapTerm(st, g), base.HBase), Ty: g.Ty}
		}
		cfail("no field %s in %s", name, base.Ty)
	}
	if base.T == nil || base.T.Sort != SRef {
		cfail("cannot select .%s from a non-reference", name)
	}
	ty := base.Ty
	if ty == nil {
		cfail("untyped reference in selection .%s", name)
	}
	// ghost field?
	if g, ok := w.Fields[w.StructKey(derefType(ty))+"."+name]; ok && g.Ghost {
		if reads != nil {
			reads[g.Key] = true
		}
		return &Val{T: Select(x.heapTerm(st, g), base.T), Ty: g.Ty}
	}
	var pkg *types.Package
	if n, ok := derefType(ty).(*types.Named); ok {
		pkg = n.Obj().Pkg()
	}
	obj, index, _ := types.LookupFieldOrMethod(ty, true, pkg, name)
	fv, ok := obj.(*types.Var)
	if !ok || !fv.IsField() {
		cfail("no field %s in %s", name, ty)
	}
	cur := base
	curTy := ty
	for _, idx := range index {
		sty, ok := derefType(curTy).Underlying().(*types.Struct)
		if !ok {
			cfail("selection through non-struct %s", curTy)
		}
		f := sty.Field(idx)
		switch {
		case cur.Fields != nil:
			cur = cur.Fields[f.Name()]
		case cur.HBase != nil:
			cur = x.viewStep(st, &Val{HBase: cur.HBase, HStruct: cur.HStruct, HPath: cur.HPath + "." + f.Name(), Ty: f.Type()}, reads)
		default:
			if onDeref != nil {
				onDeref(cur.T)
			}
			cur = x.viewStep(st, &Val{HBase: cur.T, HStruct: derefType(curTy), HPath: f.Name(), Ty: f.Type()}, reads)
		}
		curTy = f.Type()
	}
	return cur
}

func derefType(t types.Type) types.Type {
	if p, ok := t.Underlying().(*types.Pointer); ok {
		return p.Elem()
	}
	return t
}

func (x *Exec) heapTerm(st *St, f *FieldInfo) *Term {
	if x.heapVars != nil {
		if t, ok := x.heapVars[f.Key]; ok {
			return t
		}
		cfail("spec function reads undeclared field %s", f.Key)
	}
	return st.field(f)
}

// viewStep turns a heap view of a leaf field into a value; struct-typed fields stay views.
func (x *Exec) viewStep(st *St, v *Val, reads map[string]bool) *Val {
	if _, ok := isStructVal(v.Ty); ok {
		return v
	}
	f, ok := x.W.Field(v.HStruct, v.HPath, v.Ty)
	if !ok {
		cfail("field %s.%s has an unsupported type %s", x.W.StructKey(v.HStruct), v.HPath, v.Ty)
	}
	if reads != nil {
		reads[f.Key] = true
	}
	out := &Val{T: Select(x.heapTerm(st, f), v.HBase), Ty: v.Ty}
	if p, ok := x.W.CS.FieldProto[f.Key]; ok {
		out.Proto = x.W.protoOf(p)
	}
	return out
}

// materialize turns a heap view of a struct value into an explicit struct value.
func (x *Exec) materialize(st *St, v *Val) *Val {
	if v.HBase == nil {
		return v
	}
	sty, _ := isStructVal(v.Ty)
	out := &Val{Ty: v.Ty, Fields: map[string]*Val{}}
	for i := 0; i < sty.NumFields(); i++ {
		f := sty.Field(i)
		if _, ok := x.supported(f.Type()); !ok {
			continue
		}
		sub := x.viewStep(st, &Val{HBase: v.HBase, HStruct: v.HStruct, HPath: v.HPath + "." + f.Name(), Ty: f.Type()}, nil)
		out.Fields[f.Name()] = x.materialize(st, sub)
	}
	return out
}

// leaves flattens a value into its scalar leaves in field order.
func (x *Exec) leaves(st *St, v *Val) []*Term {
	if v.T != nil {
		return []*Term{v.T}
	}
	v = x.materialize(st, v)
	var out []*Term
	sty, ok := isStructVal(v.Ty)
	if !ok {
		cfail("value of type %s has no logical representation", v.Ty)
	}
	for i := 0; i < sty.NumFields(); i++ {
		if f, ok := v.Fields[sty.Field(i).Name()]; ok {
			out = append(out, x.leaves(st, f)...)
		}
	}
	return out
}

func (x *Exec) valEq(st *St, a, b *Val) *Term {
	if a.T != nil && b.T != nil {
		if a.T.Sort != b.T.Sort {
			cfail("comparison of different sorts %s and %s", a.T.Sort, b.T.Sort)
		}
		return Eq(a.T, b.T)
	}
	la, lb := x.leaves(st, a), x.leaves(st, b)
	if len(la) != len(lb) {
		cfail("comparison of values of different shape")
	}
	var cs []*Term
	for i := range la {
		cs = append(cs, Eq(la[i], lb[i]))
	}
	return And(cs...)
}

// storeField writes value v into base.path (base a reference, structTy its struct type).
func (x *Exec) storeLeaf(st *St, fr *Frame, structTy types.Type, path string, leafTy types.Type, base *Term, v *Term, p token.Pos) {
	f, ok := x.W.Field(structTy, path, leafTy)
	if !ok {
		oos("store to field %s.%s of unsupported type %s", x.W.StructKey(structTy), path, leafTy)
	}
	if x.pure {
		oos("heap write in a spec function")
	}
	x.checkWrite(st, f.Key, base, p)
	old := st.field(f)
	if v.Sort != f.Sort {
		oos("sort mismatch storing %s into %s", v.Sort, f.Key)
	}
	nw := x.fresh(f.Key, old.Sort)
	x.assume(st, Eq(nw, Store(old, base, v)))
	st.heap[f.Key] = nw
}

func (x *Exec) storeVal(st *St, fr *Frame, structTy types.Type, path string, ty types.Type, base *Term, v *Val, p token.Pos) {
	if sty, ok := isStructVal(ty); ok {
		v = x.materialize(st, v)
		for i := 0; i < sty.NumFields(); i++ {
			f := sty.Field(i)
			if sub, ok := v.Fields[f.Name()]; ok {
				x.storeVal(st, fr, structTy, path+"."+f.Name(), f.Type(), base, sub, p)
			}
		}
		return
	}
	if v.T == nil && v.Fn != nil {
		// a function value stored in the heap: an opaque non-nil reference
		r := x.fresh("closure", SRef)
		x.assume(st, Neq(r, Null))
		v = &Val{T: r, Ty: ty, Fn: v.Fn}
	}
	if v.T == nil {
		oos("store of unsupported value into %s", path)
	}
	x.storeLeaf(st, fr, structTy, path, ty, base, x.coerce(st, v, ty).T, p)
}

// coerce adapts nil to the sort of the target type and records dynamic type facts on interface conversion.
func (x *Exec) coerce(st *St, v *Val, to types.Type) *Val {
	if v == nil || to == nil {
		return v
	}
	if v.T != nil {
		if v.T.Op == "null" && v.T.Sort == SRef {
			if s, ok := x.W.SortOf(to); ok && s == SRef {
				return &Val{T: Null, Ty: to}
			}
		}
		if s, ok := x.W.SortOf(to); ok && s != v.T.Sort {
			if v.T.Op == "null" && s.IsSeq() {
				return &Val{T: SeqEmpty(s), Ty: to}
			}
			if v.T.Op == "null" && s == SSetStr {
				return &Val{T: emptySetStr(), Ty: to}
			}
		}
		if _, isIface := to.Underlying().(*types.Interface); isIface && v.Ty != nil {
			if v.T.Sort != SRef {
				// a basic value stored in an interface: an opaque box
				b := x.fresh("box", SRef)
				x.assume(st, Neq(b, Null))
				if v.T.Sort == SStr {
					x.W.BG.Funs["unbox.Str"] = FunSig{Name: "unbox.Str", Args: []Sort{SRef}, Res: SStr}
					x.assume(st, Eq(App("unbox.Str", SStr, b), v.T))
				}
				if v.T.Sort == SInt {
					x.W.BG.Funs["unbox.Int"] = FunSig{Name: "unbox.Int", Args: []Sort{SRef}, Res: SInt}
					x.assume(st, Eq(App("unbox.Int", SInt, b), v.T))
				}
				return &Val{T: b, Ty: to}
			}
			if _, fromIface := v.Ty.Underlying().(*types.Interface); !fromIface {
				x.typeFacts(st, v.T, v.Ty)
			}
		}
		return v
	}
	// struct value converted to an interface: box it
	if _, isIface := to.Underlying().(*types.Interface); isIface && (v.Fields != nil || v.HBase != nil) {
		r := x.allocRef(st, v.Ty, "box")
		x.initObject(st, v.Ty, r, x.materialize(st, v))
		return &Val{T: r, Ty: types.NewPointer(v.Ty)}
	}
	return v
}

// allocRef allocates a fresh reference of struct type ty.
func (x *Exec) allocRef(st *St, ty types.Type, hint string) *Term {
	r := x.fresh("new."+hint, SRef)
	al := st.alloc()
	x.assume(st, Neq(r, Null))
	x.assume(st, Not(Select(al, r)))
	if _, ok := ty.(*types.Named); ok {
		x.assume(st, Eq(mk("typeOf", SType, r), x.W.TypeConst(ty)))
	}
	nal := x.fresh("$alloc", al.Sort)
	x.assume(st, Eq(nal, Store(al, r, True)))
	st.heap["$alloc"] = nal
	st.fresh = append(st.fresh, r)
	// ghost counters and flags of a fresh object start at zero (sync.WaitGroup.added, errgroup.Group.failed, ...): the
	// zero value of those library types is their initial state
	if _, ok := ty.(*types.Named); ok {
		prefix := x.W.StructKey(ty) + "."
		if prefix == "sync.WaitGroup." {
			st.wgs = append(st.wgs, r)
		}
		for _, k := range x.W.FieldOrder {
			f := x.W.Fields[k]
			if f == nil || !f.Ghost || !strings.HasPrefix(k, prefix) {
				continue
			}
			switch f.Sort {
			case SInt:
				x.assume(st, Eq(Select(st.field(f), r), IntLit(0)))
			case SBool:
				x.assume(st, Eq(Select(st.field(f), r), False))
			}
		}
	}
	return r
}

// initObject stores every leaf field of a fresh object.
func (x *Exec) initObject(st *St, ty types.Type, r *Term, v *Val) {
	sty, _ := isStructVal(ty)
	for i := 0; i < sty.NumFields(); i++ {
		f := sty.Field(i)
		if _, ok := x.supported(f.Type()); !ok {
			continue
		}
		fv, ok := v.Fields[f.Name()]
		if !ok {
			fv = x.zeroVal(f.Type())
		}
		x.storeVal(st, nil, ty, f.Name(), f.Type(), r, fv, token.NoPos)
	}
}

// checkWrite checks a heap write against the modifies clause of the function under verification.
func (x *Exec) checkWrite(st *St, key string, loc *Term, p token.Pos) {
	if x.pure || x.frameAll == nil {
		return
	}
	if x.frameAll[key] {
		return
	}
	for _, f := range st.fresh {
		if f == loc || f.String() == loc.String() {
			return
		}
	}
	var alts []*Term
	for _, l := range x.frameLocs[key] {
		alts = append(alts, Eq(loc, l))
	}
	alts = append(alts, Not(Select(x.entry.alloc(), loc)))
	pos := ""
	if p.IsValid() {
		pos = x.W.posCol(p)
	}
	x.emit(st, oblTemplate{kind: "frame", label: key, pos: pos, clause: "write to " + key + " is permitted by the modifies clause"}, nil, Or(alts...))
}

// ---------- globals ----------

func (x *Exec) globalVal(v *types.Var) *Val {
	w := x.W
	if t, ok := w.Globals[v]; ok {
		return &Val{T: t, Ty: v.Type()}
	}
	if w.assignedGlobal(v) {
		oos("package-level variable %s is assigned somewhere; it cannot be treated as a constant", v.Name())
	}
	s, ok := w.SortOf(v.Type())
	if !ok {
		oos("package-level variable %s has unsupported type %s", v.Name(), v.Type())
	}
	name := "g." + pkgShort(v.Pkg()) + "." + v.Name()
	var t *Term
	if init := w.globalInit(v); init != nil {
		t = init
	} else {
		t = Var(name, s)
		w.BG.Consts[name] = s
		if s == SRef {
			// package-level pointers and sentinel errors are distinct allocated objects
			if len(w.BG.Distinct) == 0 {
				w.BG.Distinct = append(w.BG.Distinct, []string{"null"})
			}
			w.BG.Distinct[0] = append(w.BG.Distinct[0], name)
			sort.Strings(w.BG.Distinct[0][1:])
		}
	}
	w.Globals[v] = t
	return &Val{T: t, Ty: v.Type()}
}

// assignedGlobal reports whether a package-level variable is assigned anywhere outside its declaration.
func (w *World) assignedGlobal(v *types.Var) bool {
	for _, p := range w.Main {
		if p.Types != v.Pkg() {
			continue
		}
		found := false
		for _, f := range p.Syntax {
			ast.Inspect(f, func(n ast.Node) bool {
				switch s := n.(type) {
				case *ast.AssignStmt:
					for _, l := range s.Lhs {
						if id, ok := l.(*ast.Ident); ok && p.TypesInfo.Uses[id] == v {
							found = true
						}
					}
				case *ast.UnaryExpr:
					if s.Op == token.AND {
						if id, ok := s.X.(*ast.Ident); ok && p.TypesInfo.Uses[id] == v {
							found = true
						}
					}
				case *ast.IncDecStmt:
					if id, ok := s.X.(*ast.Ident); ok && p.TypesInfo.Uses[id] == v {
						found = true
					}
				}
				return !found
			})
		}
		return found
	}
	// variables of dependencies are treated as constants (sentinel errors such as bufio.ErrTooLong)
	return false
}

// globalInit returns a term for package-level slices/maps of constant strings.
func (w *World) globalInit(v *types.Var) *Term {
	for _, p := range w.Main {
		if p.Types != v.Pkg() {
			continue
		}
		for _, f := range p.Syntax {
			for _, d := range f.Decls {
				gd, ok := d.(*ast.GenDecl)
				if !ok || gd.Tok != token.VAR {
					continue
				}
				for _, sp := range gd.Specs {
					vs := sp.(*ast.ValueSpec)
					for i, nm := range vs.Names {
						if p.TypesInfo.Defs[nm] != v || i >= len(vs.Values) {
							continue
						}
						cl, ok := vs.Values[i].(*ast.CompositeLit)
						if !ok {
							return nil
						}
						s, _ := w.SortOf(v.Type())
						if _, isMap := v.Type().Underlying().(*types.Map); isMap {
							s = SSetStr
						}
						switch s {
						case SSeqStr:
							t := SeqEmpty(SSeqStr)
							for _, el := range cl.Elts {
								tv := p.TypesInfo.Types[el]
								if tv.Value == nil {
									return nil
								}
								t = SeqPush(t, constVal(tv.Value, tv.Type).T)
							}
							return t
						case SSetStr:
							t := emptySetStr()
							for _, el := range cl.Elts {
								kv, ok := el.(*ast.KeyValueExpr)
								if !ok {
									return nil
								}
								tv := p.TypesInfo.Types[kv.Key]
								if tv.Value == nil {
									return nil
								}
								t = Store(t, constVal(tv.Value, tv.Type).T, True)
							}
							return t
						}
						return nil
					}
				}
			}
		}
	}
	return nil
}
