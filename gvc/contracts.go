package gvc

import (
	"fmt"
	"regexp"
	"strings"
)

// Clause is one labelled contract clause.
type Clause struct {
	Kind  string // requires ensures invariant decreases
	Label string
	Props []string
	Text  string
	Expr  *CExpr
	Pos   string
}

// ModItem is an entry of a modifies clause: either a whole field ("Node.children")
// or a location expression ("current.brnch.value") or a ghost variable.
type ModItem struct {
	Text string
	Expr *CExpr
}

// Contract is the set of clauses bound to a function, loop, closure, lemma or trusted external.
type Contract struct {
	Key        string
	Kind       string // func loop closure lemma trusted spec
	Params     []string
	Requires   []*Clause
	Defines    []*Clause // closures: facts that hold of the closure value (self) by definition (uninterpreted attributes of function values)
	Joins      []*Clause // goroutine bodies: WaitGroups on which this goroutine signals its end exactly once (see joins in ParseContractLines)
	Relies     []*Clause // goroutine bodies: facts about shared state that every goroutine preserves (assumed at entry and after interference, proved at every exit)
	Ensures    []*Clause
	Invariants []*Clause
	Decreases  *Clause
	DecList    []*CExpr
	Modifies   []*ModItem
	HasMod     bool
	Resumes    []*ModItem // streams: what resuming the producer may modify
	Flags      map[string]bool
	Derived    []string // "derived from K1, K2": this contract is a consequence of the contracts K1, K2 (instances); proved per source
	Uses       []string
	Triggers   [][]*CExpr
	Yields     string // protocol name (closures)
	ParamProto map[string]string
	Pos        string
	File       string
	Shared     string                       // name of the shared contract this was instantiated from
	GhostSets  []*GhostSet                  // ghost variables updated when the function returns
	YieldsArgs []*CExpr                     // "yields S(e1, e2)": the subjects of the stream the function/closure produces
	Subjects   []string                     // streams: names of the subjects (bound to the producer's YieldsArgs)
	Records    []*GhostSet                  // streams: ghost variables updated at every yield (mirrored at the consumer's next/range)
	Receives   []*GhostSet                  // channel protocols: ghost variables updated by the receiver at every successful receive
	Stops      string                       // streams: ghost Bool that becomes !ret after every yield
	Tracks     []string                     // streams: ghost variables reset when a producer starts and then updated only by the producer's own ghost code
	RetProto   string                       // the protocol the returned function value must obey (closures implementing a factory protocol)
	ParamSubj  map[string][]string          // "param X follows S(a, b)": names for the subjects of the stream value X
	SubjTypes  []string                     // streams: declared Go types of the subjects ("" = any)
	Afters     []*AfterHook                 // ghost updates performed after calls in the body of this function / closure
	Carries    map[string]*CarryDecl        // "carries x: P(a, b)": the channel variable / parameter / resultN x carries protocol P
	RefineMap  map[string]map[string]string // streams: refined stream -> (its ghost variable -> the corresponding one of this stream)
	Implements string                       // closures: the protocol this function literal implements
	ImplInst   string                       // type instance for $T in that protocol
}

type GhostDecl struct {
	Name  string // "wfail" or "List.view"
	Type  string
	Field bool
}

// GhostSet is "ghostset name := expr": on return of the function the ghost variable takes the value of expr
// (evaluated in the post-state, old() refers to the pre-state). It defines how ghost bookkeeping evolves; the
// update is applied where the function is called by contract and when the function's own postconditions are checked.
type GhostSet struct {
	Var  string
	Text string
	Expr *CExpr
}

// AfterHook is "after callee: G := expr": ghost code attached to every call, in the body of the function under
// contract (not in inlined callees), whose callee is named callee (identifier, or the selected method/function name).
// expr is evaluated right after the call returns; result / result0.. name the call's results, the function's locals
// are visible, and G's own current value may be used.
type AfterHook struct {
	Callee string
	Var    string
	Text   string
	Expr   *CExpr
}

// CarryDecl: a channel (named by the variable, parameter or resultN that holds it) carries a channel protocol.
type CarryDecl struct {
	Proto string
	Args  []*CExpr
	Text  string
}

// MethodVal: a method value x.M of a trusted external method obeys a protocol; Bind relates self (the function value) and recv.
type MethodVal struct {
	Proto string
	Bind  *CExpr
	Text  string
}

// TagDecl demands a struct tag on a field (decided syntactically): tag Type.Field key "value" [props]
type TagDecl struct {
	Type, Field, Key, Value string
	Props                   []string
	Pos                     string
}

// LogicFn is an uninterpreted logical function declared in a contract or trusted spec file.
type LogicFn struct {
	Name   string
	Params []CVar
	Result string
}

// Pred is a named, non-recursive contract-language predicate (expanded at its uses).
type Pred struct {
	Name   string
	Params []CVar
	Body   *Clause
}

type Protocol struct {
	Name   string
	Params []CVar
	Inv    *Clause
	Term   *Clause // terminal condition
}

// ContractSet is everything parsed from the contract files.
type ContractSet struct {
	ByKey      map[string]*Contract
	Order      []*Contract
	GlobalInvs []*Clause
	Ghosts     []*GhostDecl
	Protocols  map[string]*Protocol
	Preds      map[string]*Pred
	Logics     map[string]*LogicFn
	FieldProto map[string]string // "Type.field" -> protocol obeyed by the function value stored there
	MethodVals map[string]*MethodVal
	Tags       []TagDecl
	Axioms     []*Clause
	Applies    map[string][]string // shared contract name -> function keys
	Errors     []string
}

func NewContractSet() *ContractSet {
	return &ContractSet{ByKey: map[string]*Contract{}, Protocols: map[string]*Protocol{}, Preds: map[string]*Pred{}, Logics: map[string]*LogicFn{}, FieldProto: map[string]string{}, MethodVals: map[string]*MethodVal{}, Applies: map[string][]string{}}
}

var clauseKW = map[string]bool{
	"func": true, "loop": true, "closure": true, "lemma": true, "trusted": true, "global": true, "ghost": true,
	"requires": true, "ensures": true, "invariant": true, "modifies": true, "decreases": true,
	"helper": true, "inline": true, "pure": true, "nowf": true, "use": true, "protocol": true,
	"yields": true, "param": true, "contract": true, "applies": true, "opaque": true, "entry": true, "spec": true,
	"terminal": true, "allocates": true, "pred": true, "trigger": true, "assumed": true, "derived": true, "partial": true, "stream": true, "resumes": true, "refines": true, "field": true, "implements": true, "tag": true, "ghostset": true, "records": true, "receives": true, "stops": true, "subject": true, "methodvalue": true, "logic": true, "axiom": true, "nilrecv": true, "verify": true, "after": true, "tracks": true, "channel": true, "carries": true, "rely": true, "joins": true, "closes": true, "defines": true, "fuel": true,
}

var labelRe = regexp.MustCompile(`^([A-Za-z_][\w']*)\s*(\[[A-Za-z0-9, ]*\])?\s*:`)

// ParseContractLines parses the //@ lines of one file. lines are (text without the //@ prefix, position).
func (cs *ContractSet) ParseContractLines(file string, lines []string, poss []string) {
	// join continuation lines
	type item struct {
		kw, rest, pos string
	}
	var items []item
	for i, ln := range lines {
		t := strings.TrimSpace(ln)
		if t == "" {
			continue
		}
		// strip trailing line comments " // ..." not inside string literal
		if k := commentIndex(t); k >= 0 {
			t = strings.TrimSpace(t[:k])
			if t == "" {
				continue
			}
		}
		first := t
		if j := strings.IndexAny(t, " \t("); j >= 0 {
			first = t[:j]
		}
		if clauseKW[first] {
			items = append(items, item{first, strings.TrimSpace(t[len(first):]), poss[i]})
		} else if len(items) > 0 {
			items[len(items)-1].rest += " " + t
		} else {
			cs.Errors = append(cs.Errors, fmt.Sprintf("%s: stray contract line %q", poss[i], t))
		}
	}
	var cur *Contract
	inGlobal := false
	var curProto *Protocol
	addClause := func(kind, rest, pos string) *Clause {
		c := &Clause{Kind: kind, Pos: pos}
		if m := labelRe.FindStringSubmatch(rest); m != nil && !strings.HasPrefix(rest[len(m[0]):], ":") {
			c.Label = m[1]
			if m[2] != "" {
				for _, p := range strings.Split(strings.Trim(m[2], "[]"), ",") {
					if p = strings.TrimSpace(p); p != "" {
						c.Props = append(c.Props, p)
					}
				}
			}
			rest = strings.TrimSpace(rest[len(m[0]):])
		}
		c.Text = rest
		e, err := ParseCExpr(rest)
		if err != nil {
			cs.Errors = append(cs.Errors, fmt.Sprintf("%s: %v", pos, err))
			return nil
		}
		c.Expr = e
		return c
	}
	newContract := func(kind, rest, pos string) *Contract {
		key := rest
		var params []string
		if k := strings.Index(rest, "("); k >= 0 && strings.HasSuffix(rest, ")") {
			key = strings.TrimSpace(rest[:k])
			for _, p := range strings.Split(rest[k+1:len(rest)-1], ",") {
				if p = strings.TrimSpace(p); p != "" {
					params = append(params, p)
				}
			}
		}
		c := &Contract{Key: key, Kind: kind, Params: params, Flags: map[string]bool{}, Pos: pos, File: file, ParamProto: map[string]string{}}
		if old, dup := cs.ByKey[key]; dup {
			cs.Errors = append(cs.Errors, fmt.Sprintf("%s: duplicate contract for %s (first at %s)", pos, key, old.Pos))
		}
		cs.ByKey[key] = c
		cs.Order = append(cs.Order, c)
		return c
	}
	for _, it := range items {
		switch it.kw {
		case "func", "loop", "closure", "lemma", "trusted", "contract", "spec":
			inGlobal = false
			curProto = nil
			cur = newContract(it.kw, it.rest, it.pos)
		case "global":
			inGlobal = true
			cur = nil
			curProto = nil
			if strings.HasPrefix(it.rest, "invariant") {
				if c := addClause("invariant", strings.TrimSpace(strings.TrimPrefix(it.rest, "invariant")), it.pos); c != nil {
					cs.GlobalInvs = append(cs.GlobalInvs, c)
				}
			}
		case "ghost":
			f := strings.Fields(it.rest)
			if len(f) >= 3 && (f[0] == "var" || f[0] == "field") {
				cs.Ghosts = append(cs.Ghosts, &GhostDecl{Name: f[1], Type: strings.Join(f[2:], " "), Field: f[0] == "field"})
			} else {
				cs.Errors = append(cs.Errors, fmt.Sprintf("%s: bad ghost declaration %q", it.pos, it.rest))
			}
		case "stream":
			// stream name(v1, v2): the values an iterator yields, what the consumer may modify between yields (modifies)
			// and what resuming the producer may modify (resumes)
			inGlobal = false
			curProto = nil
			cur = newContract("stream", it.rest, it.pos)
			delete(cs.ByKey, cur.Key)
			cur.Key = "stream." + cur.Key
			cs.ByKey[cur.Key] = cur
		case "tag":
			// tag Type.Field key "value" [C04]
			m := regexp.MustCompile(`^(\w+)\.(\w+)\s+(\w+)\s+"([^"]*)"\s*(\[[A-Z0-9, ]*\])?$`).FindStringSubmatch(it.rest)
			if m == nil {
				cs.Errors = append(cs.Errors, fmt.Sprintf("%s: bad tag declaration %q", it.pos, it.rest))
				continue
			}
			td := TagDecl{Type: m[1], Field: m[2], Key: m[3], Value: m[4], Pos: it.pos}
			for _, p := range strings.Split(strings.Trim(m[5], "[]"), ",") {
				if p = strings.TrimSpace(p); p != "" {
					td.Props = append(td.Props, p)
				}
			}
			cs.Tags = append(cs.Tags, td)
			cur = nil
		case "field":
			// field Type.name follows protocol
			f := strings.Fields(it.rest)
			if len(f) == 3 && f[1] == "follows" {
				cs.FieldProto[f[0]] = f[2]
			} else {
				cs.Errors = append(cs.Errors, fmt.Sprintf("%s: bad field declaration %q", it.pos, it.rest))
			}
			cur = nil
		case "methodvalue":
			// methodvalue pkg.Type.Method follows proto [binds expr]
			m := regexp.MustCompile(`^(\S+)\s+follows\s+(\w+)(?:\s+binds\s+(.*))?$`).FindStringSubmatch(it.rest)
			if m == nil {
				cs.Errors = append(cs.Errors, fmt.Sprintf("%s: bad methodvalue declaration %q", it.pos, it.rest))
				continue
			}
			mv := &MethodVal{Proto: m[2], Text: m[3]}
			if m[3] != "" {
				e, err := ParseCExpr(m[3])
				if err != nil {
					cs.Errors = append(cs.Errors, fmt.Sprintf("%s: %v", it.pos, err))
					continue
				}
				mv.Bind = e
			}
			cs.MethodVals[m[1]] = mv
			cur = nil
		case "ghostset":
			if cur != nil {
				parts := strings.SplitN(it.rest, ":=", 2)
				if len(parts) != 2 {
					cs.Errors = append(cs.Errors, fmt.Sprintf("%s: bad ghostset %q", it.pos, it.rest))
					continue
				}
				e, err := ParseCExpr(strings.TrimSpace(parts[1]))
				if err != nil {
					cs.Errors = append(cs.Errors, fmt.Sprintf("%s: %v", it.pos, err))
					continue
				}
				cur.GhostSets = append(cur.GhostSets, &GhostSet{Var: strings.TrimSpace(parts[0]), Text: strings.TrimSpace(parts[1]), Expr: e})
			}
		case "records":
			// records G := expr   (streams)
			if cur != nil {
				parts := strings.SplitN(it.rest, ":=", 2)
				if len(parts) != 2 {
					cs.Errors = append(cs.Errors, fmt.Sprintf("%s: bad records %q", it.pos, it.rest))
					continue
				}
				e, err := ParseCExpr(strings.TrimSpace(parts[1]))
				if err != nil {
					cs.Errors = append(cs.Errors, fmt.Sprintf("%s: %v", it.pos, err))
					continue
				}
				cur.Records = append(cur.Records, &GhostSet{Var: strings.TrimSpace(parts[0]), Text: strings.TrimSpace(parts[1]), Expr: e})
			}
		case "receives":
			// receives G := expr   (channel protocols: ghost bookkeeping of the receiving goroutine)
			if cur != nil {
				parts := strings.SplitN(it.rest, ":=", 2)
				if len(parts) != 2 {
					cs.Errors = append(cs.Errors, fmt.Sprintf("%s: bad receives %q", it.pos, it.rest))
					continue
				}
				e, err := ParseCExpr(strings.TrimSpace(parts[1]))
				if err != nil {
					cs.Errors = append(cs.Errors, fmt.Sprintf("%s: %v", it.pos, err))
					continue
				}
				cur.Receives = append(cur.Receives, &GhostSet{Var: strings.TrimSpace(parts[0]), Text: strings.TrimSpace(parts[1]), Expr: e})
			}
		case "after":
			// after callee: G := expr
			if cur != nil {
				m := regexp.MustCompile(`^([\w.]+)\s*:\s*(\w+)\s*:=\s*(.*)$`).FindStringSubmatch(it.rest)
				if m == nil {
					cs.Errors = append(cs.Errors, fmt.Sprintf("%s: bad after clause %q", it.pos, it.rest))
					continue
				}
				e, err := ParseCExpr(strings.TrimSpace(m[3]))
				if err != nil {
					cs.Errors = append(cs.Errors, fmt.Sprintf("%s: %v", it.pos, err))
					continue
				}
				cur.Afters = append(cur.Afters, &AfterHook{Callee: m[1], Var: m[2], Text: strings.TrimSpace(m[3]), Expr: e})
			}
		case "channel":
			// channel name(v): what may be sent on a channel (requires), with optional subjects
			inGlobal = false
			curProto = nil
			cur = newContract("channel", it.rest, it.pos)
			delete(cs.ByKey, cur.Key)
			cur.Key = "chan." + cur.Key
			cs.ByKey[cur.Key] = cur
		case "carries":
			// carries x: P   or   carries x: P(e1, e2)
			if cur != nil {
				nm, rest, ok := strings.Cut(it.rest, ":")
				if !ok {
					cs.Errors = append(cs.Errors, fmt.Sprintf("%s: bad carries clause %q", it.pos, it.rest))
					continue
				}
				cd := &CarryDecl{Text: strings.TrimSpace(rest)}
				r := strings.TrimSpace(rest)
				if i := strings.Index(r, "("); i > 0 && strings.HasSuffix(r, ")") {
					for _, m := range splitTop(r[i+1 : len(r)-1]) {
						if strings.TrimSpace(m) == "" {
							continue
						}
						e, err := ParseCExpr(strings.TrimSpace(m))
						if err != nil {
							cs.Errors = append(cs.Errors, fmt.Sprintf("%s: %v", it.pos, err))
							continue
						}
						cd.Args = append(cd.Args, e)
					}
					r = strings.TrimSpace(r[:i])
				}
				cd.Proto = r
				if cur.Carries == nil {
					cur.Carries = map[string]*CarryDecl{}
				}
				cur.Carries[strings.TrimSpace(nm)] = cd
			}
		case "tracks":
			if cur != nil {
				for _, f := range strings.Split(it.rest, ",") {
					if f = strings.TrimSpace(f); f != "" {
						cur.Tracks = append(cur.Tracks, f)
					}
				}
			}
		case "stops":
			if cur != nil {
				cur.Stops = strings.TrimSpace(it.rest)
			}
		case "subject":
			if cur != nil {
				// subject g *defaultGrowerSimple, w   (the type is optional)
				for _, f := range strings.Split(it.rest, ",") {
					if f = strings.TrimSpace(f); f != "" {
						nm, ty, _ := strings.Cut(f, " ")
						cur.Subjects = append(cur.Subjects, nm)
						cur.SubjTypes = append(cur.SubjTypes, strings.TrimSpace(ty))
					}
				}
			}
		case "implements":
			// implements protocol [instance]
			if cur != nil {
				f := strings.Fields(it.rest)
				if len(f) >= 1 {
					cur.Implements = f[0]
				}
				if len(f) >= 2 {
					cur.ImplInst = f[1]
				}
			}
		case "refines":
			// refines G [with gA=rA, gB=rB]
			if cur != nil {
				name, with, _ := strings.Cut(it.rest, " with ")
				name = strings.TrimSpace(name)
				cur.Flags["refines:"+name] = true
				if cur.RefineMap == nil {
					cur.RefineMap = map[string]map[string]string{}
				}
				cur.RefineMap[name] = map[string]string{}
				for _, pr := range strings.Split(with, ",") {
					if a, b, ok := strings.Cut(strings.TrimSpace(pr), "="); ok {
						cur.RefineMap[name][strings.TrimSpace(a)] = strings.TrimSpace(b)
					}
				}
			}
		case "resumes":
			if cur == nil {
				continue
			}
			for _, m := range splitTop(it.rest) {
				m = strings.TrimSpace(m)
				if m == "" || m == "nothing" {
					continue
				}
				e, err := ParseCExpr(m)
				if err != nil {
					cs.Errors = append(cs.Errors, fmt.Sprintf("%s: %v", it.pos, err))
					continue
				}
				cur.Resumes = append(cur.Resumes, &ModItem{Text: m, Expr: e})
			}
		case "protocol":
			// protocol name(p1, p2): a contract for function values (callbacks, yield functions)
			inGlobal = false
			curProto = nil
			cur = newContract("protocol", it.rest, it.pos)
			cur.Key = "protocol." + cur.Key
			delete(cs.ByKey, strings.TrimPrefix(cur.Key, "protocol."))
			cs.ByKey[cur.Key] = cur
		case "pred":
			m := regexp.MustCompile(`^(\w+)\s*\(([^)]*)\)\s*:(.*)$`).FindStringSubmatch(it.rest)
			if m == nil {
				cs.Errors = append(cs.Errors, fmt.Sprintf("%s: bad pred %q", it.pos, it.rest))
				continue
			}
			p := &Pred{Name: m[1]}
			for _, v := range strings.Split(m[2], ",") {
				f := strings.Fields(strings.TrimSpace(v))
				if len(f) == 2 {
					p.Params = append(p.Params, CVar{f[0], f[1]})
				}
			}
			p.Body = addClause("pred", strings.TrimSpace(m[3]), it.pos)
			cs.Preds[p.Name] = p
			cur = nil
			curProto = nil
		case "logic":
			m := regexp.MustCompile(`^(\w+)\s*\(([^)]*)\)\s*(.*)$`).FindStringSubmatch(it.rest)
			if m == nil {
				cs.Errors = append(cs.Errors, fmt.Sprintf("%s: bad logic declaration %q", it.pos, it.rest))
				continue
			}
			lf := &LogicFn{Name: m[1], Result: strings.TrimSpace(m[3])}
			for _, v := range strings.Split(m[2], ",") {
				f := strings.Fields(strings.TrimSpace(v))
				if len(f) == 2 {
					lf.Params = append(lf.Params, CVar{f[0], f[1]})
				}
			}
			cs.Logics[lf.Name] = lf
			cur = nil
		case "axiom":
			if c := addClause("axiom", it.rest, it.pos); c != nil {
				cs.Axioms = append(cs.Axioms, c)
			}
			cur = nil
		case "terminal":
			if curProto != nil {
				curProto.Term = addClause("terminal", it.rest, it.pos)
			}
		case "fuel":
			// fuel N (spec functions): N unfoldings at top-level applications instead of the default two
			if cur != nil {
				cur.Flags["fuel:"+strings.TrimSpace(it.rest)] = true
			}
		case "defines":
			if cur != nil {
				if c := addClause("defines", it.rest, it.pos); c != nil {
					cur.Defines = append(cur.Defines, c)
				}
			}
		case "closes":
			// closes l [props]: ch — on every return path of this body the channel ch has been closed (a receiver that ranges
			// over it, or waits for its closing, would otherwise never get on). Spelt out as a postcondition.
			if cur != nil {
				if c := addClause("closes", it.rest, it.pos); c != nil {
					tag := ""
					if len(c.Props) > 0 {
						tag = " [" + strings.Join(c.Props, ",") + "]"
					}
					if e := addClause("ensures", fmt.Sprintf("closed_%s%s: chanClosed(%s)", c.Label, tag, c.Text), it.pos); e != nil {
						cur.Ensures = append(cur.Ensures, e)
					}
				}
			}
		case "joins":
			// joins l [props]: wg — this goroutine body calls wg.Done() exactly once on every path. Spelt out as a precondition
			// (the spawner has announced it with Add and not yet used that announcement: checked at the go statement, which
			// then counts the goroutine as spawned) and a postcondition (Done was called once more than at entry).
			if cur != nil {
				if c := addClause("joins", it.rest, it.pos); c != nil {
					cur.Joins = append(cur.Joins, c)
					tag := ""
					if len(c.Props) > 0 {
						tag = " [" + strings.Join(c.Props, ",") + "]"
					}
					if r := addClause("requires", fmt.Sprintf("slot_%s%s: (%s) != nil && (%s).spawned < (%s).added", c.Label, tag, c.Text, c.Text, c.Text), it.pos); r != nil {
						cur.Requires = append(cur.Requires, r)
					}
					if e := addClause("ensures", fmt.Sprintf("joined_%s%s: (%s).done == old((%s).done) + 1", c.Label, tag, c.Text, c.Text), it.pos); e != nil {
						cur.Ensures = append(cur.Ensures, e)
					}
				}
			}
		case "rely":
			if cur != nil {
				if c := addClause("rely", it.rest, it.pos); c != nil {
					cur.Relies = append(cur.Relies, c)
				}
			}
		case "requires", "ensures", "invariant", "decreases":
			if inGlobal && it.kw == "invariant" {
				if c := addClause("invariant", it.rest, it.pos); c != nil {
					cs.GlobalInvs = append(cs.GlobalInvs, c)
				}
				continue
			}
			if cur == nil {
				cs.Errors = append(cs.Errors, fmt.Sprintf("%s: clause outside a block", it.pos))
				continue
			}
			if it.kw == "decreases" {
				cl := &Clause{Kind: "decreases", Text: it.rest, Pos: it.pos}
				cur.DecList = nil
				for _, m := range splitTop(it.rest) {
					e, err := ParseCExpr(strings.TrimSpace(m))
					if err != nil {
						cs.Errors = append(cs.Errors, fmt.Sprintf("%s: %v", it.pos, err))
						continue
					}
					cur.DecList = append(cur.DecList, e)
				}
				if len(cur.DecList) > 0 {
					cl.Expr = cur.DecList[0]
				}
				cur.Decreases = cl
				continue
			}
			c := addClause(it.kw, it.rest, it.pos)
			if c == nil {
				continue
			}
			switch it.kw {
			case "requires":
				cur.Requires = append(cur.Requires, c)
			case "ensures":
				cur.Ensures = append(cur.Ensures, c)
			case "invariant":
				cur.Invariants = append(cur.Invariants, c)
			case "decreases":
				cur.Decreases = c
			}
		case "modifies":
			if cur == nil {
				continue
			}
			cur.HasMod = true
			for _, m := range splitTop(it.rest) {
				m = strings.TrimSpace(m)
				if m == "" || m == "nothing" {
					continue
				}
				e, err := ParseCExpr(m)
				if err != nil {
					cs.Errors = append(cs.Errors, fmt.Sprintf("%s: %v", it.pos, err))
					continue
				}
				cur.Modifies = append(cur.Modifies, &ModItem{Text: m, Expr: e})
			}
		case "derived":
			// derived from K1, K2, ...
			if cur != nil {
				rest := strings.TrimSpace(strings.TrimPrefix(strings.TrimSpace(it.rest), "from"))
				for _, k := range strings.Split(rest, ",") {
					if k = strings.TrimSpace(k); k != "" {
						cur.Derived = append(cur.Derived, k)
					}
				}
				if len(cur.Derived) == 0 {
					cs.Errors = append(cs.Errors, fmt.Sprintf("%s: derived from: no source contracts", it.pos))
				}
			}
		case "helper", "inline", "pure", "nowf", "opaque", "entry", "allocates", "nilrecv", "verify", "assumed", "partial":
			if cur != nil {
				cur.Flags[it.kw] = true
			}
		case "trigger":
			if cur != nil {
				var pat []*CExpr
				for _, m := range splitTop(it.rest) {
					e, err := ParseCExpr(strings.TrimSpace(m))
					if err != nil {
						cs.Errors = append(cs.Errors, fmt.Sprintf("%s: %v", it.pos, err))
						continue
					}
					pat = append(pat, e)
				}
				cur.Triggers = append(cur.Triggers, pat)
			}
		case "use":
			if cur != nil {
				r := strings.TrimSpace(strings.TrimPrefix(it.rest, "lemma"))
				for _, u := range strings.Split(r, ",") {
					if u = strings.TrimSpace(u); u != "" {
						cur.Uses = append(cur.Uses, u)
					}
				}
			}
		case "yields":
			if cur != nil {
				// yields S   or   yields S(e1, e2)
				r := strings.TrimSpace(it.rest)
				if i := strings.Index(r, "("); i > 0 && strings.HasSuffix(r, ")") {
					for _, m := range splitTop(r[i+1 : len(r)-1]) {
						e, err := ParseCExpr(strings.TrimSpace(m))
						if err != nil {
							cs.Errors = append(cs.Errors, fmt.Sprintf("%s: %v", it.pos, err))
							continue
						}
						cur.YieldsArgs = append(cur.YieldsArgs, e)
					}
					r = strings.TrimSpace(r[:i])
				}
				cur.Yields = r
			}
		case "param":
			// param rootIter follows rootStream      or      param rootIter follows grownStream(g)
			rest := it.rest
			var subj []string
			if i := strings.Index(rest, "("); i > 0 && strings.HasSuffix(strings.TrimSpace(rest), ")") {
				r := strings.TrimSpace(rest)
				for _, s := range strings.Split(r[i+1:len(r)-1], ",") {
					if s = strings.TrimSpace(s); s != "" {
						subj = append(subj, s)
					}
				}
				rest = r[:i]
			}
			f := strings.Fields(rest)
			if cur != nil && len(f) == 3 && f[1] == "follows" {
				cur.ParamProto[f[0]] = f[2]
				if len(subj) > 0 {
					if cur.ParamSubj == nil {
						cur.ParamSubj = map[string][]string{}
					}
					cur.ParamSubj[f[0]] = subj
				}
			}
		case "applies":
			// applies <contract> to f, g
			parts := strings.SplitN(it.rest, " to ", 2)
			if len(parts) == 2 {
				name := strings.TrimSpace(parts[0])
				for _, f := range strings.Split(parts[1], ",") {
					cs.Applies[name] = append(cs.Applies[name], strings.TrimSpace(f))
				}
			}
		}
	}
}

// ResolveApplies instantiates shared contracts ("contract X" + "applies X to f, g") for each listed function.
func (cs *ContractSet) ResolveApplies() {
	for _, name := range sortedKeys(cs.Applies) {
		shared := cs.ByKey[name]
		if shared == nil || shared.Kind != "contract" {
			cs.Errors = append(cs.Errors, "applies: unknown shared contract "+name)
			continue
		}
		for _, fk := range cs.Applies[name] {
			if _, dup := cs.ByKey[fk]; dup {
				// a direct contract (e.g. of another build variant) takes precedence over the shared one
				continue
			}
			c := *shared
			if i, j := strings.Index(fk, "["), strings.Index(fk, "]"); i >= 0 && j > i {
				c = *instantiateContract(shared, fk[i+1:j], cs)
			}
			c.Key = fk
			c.Kind = "func"
			if strings.Contains(fk, "#") {
				c.Kind = "closure"
			}
			c.Flags = map[string]bool{}
			for k, v := range shared.Flags {
				c.Flags[k] = v
			}
			c.Shared = name
			cs.ByKey[fk] = &c
			cs.Order = append(cs.Order, &c)
		}
	}
}

// instantiateContract re-parses the clauses of a contract with the placeholder $T replaced by a type name.
func instantiateContract(c *Contract, inst string, cs *ContractSet) *Contract {
	n := *c
	re := func(cls []*Clause) []*Clause {
		var out []*Clause
		for _, cl := range cls {
			nc := *cl
			nc.Text = strings.ReplaceAll(cl.Text, "$T", inst)
			e, err := ParseCExpr(nc.Text)
			if err != nil {
				cs.Errors = append(cs.Errors, fmt.Sprintf("%s: instance %s: %v", cl.Pos, inst, err))
				continue
			}
			nc.Expr = e
			out = append(out, &nc)
		}
		return out
	}
	n.Requires, n.Ensures, n.Invariants = re(c.Requires), re(c.Ensures), re(c.Invariants)
	n.Modifies = nil
	for _, m := range c.Modifies {
		t := strings.ReplaceAll(m.Text, "$T", inst)
		e, err := ParseCExpr(t)
		if err != nil {
			cs.Errors = append(cs.Errors, fmt.Sprintf("%s: instance %s: %v", c.Pos, inst, err))
			continue
		}
		n.Modifies = append(n.Modifies, &ModItem{Text: t, Expr: e})
	}
	n.Flags = map[string]bool{}
	for k, v := range c.Flags {
		n.Flags[k] = v
	}
	return &n
}

func commentIndex(s string) int {
	inStr := false
	for i := 0; i+1 < len(s); i++ {
		switch s[i] {
		case '"':
			inStr = !inStr
		case '\\':
			if inStr {
				i++
			}
		case '/':
			if !inStr && s[i+1] == '/' {
				return i
			}
		}
	}
	return -1
}

// splitTop splits on commas not nested in brackets.
func splitTop(s string) []string {
	var out []string
	depth, start := 0, 0
	for i, c := range s {
		switch c {
		case '(', '[', '{':
			depth++
		case ')', ']', '}':
			depth--
		case ',':
			if depth == 0 {
				out = append(out, s[start:i])
				start = i + 1
			}
		}
	}
	return append(out, s[start:])
}
