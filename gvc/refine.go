package gvc

import (
	"fmt"
	"go/types"
	"regexp"
	"sort"
	"strings"
)

// Stream refinement. "stream R ... refines G with gA=rA, gB=rB": every producer of R may be used where a producer of G is
// expected, G's subjects being nil in that view. The declaration is not trusted: the pseudo verification unit
// "stream.R/refines#G" proves
//   (requires)  R's requires clauses imply G's (subjects of G nil) for all yielded values and all states,
//   (finish)    R's finish conditions imply G's,
//   (records)   G records, stops exactly what R records, stops, modulo the declared correspondence of ghost variables
//               (syntactic), so that the ghost variables of G can be read as aliases of R's while R produces,
//   (frame)     what a consumer of G may modify between yields is tolerated by a producer of R, and what resuming a producer
//               of R may modify is expected by a consumer of G (set inclusion of field keys).
// Under the correspondence a consumer verified against G is therefore also correct when fed by a producer of R.

func (w *World) RefinementUnits() []string {
	var out []string
	for _, c := range w.CS.Order {
		if c.Kind != "stream" {
			continue
		}
		for _, f := range sortedKeys(c.Flags) {
			if strings.HasPrefix(f, "refines:") && w.streamParamTypes(strings.TrimPrefix(c.Key, "stream.")) != nil {
				// (a stream none of whose producers exists in this build variant has nothing to refine)
				out = append(out, c.Key+"/refines#"+strings.TrimPrefix(f, "refines:"))
			}
		}
	}
	return out
}

// streamParamTypes finds the Go types of the values of a stream from one of its producers (a closure yielding it).
func (w *World) streamParamTypes(name string) []types.Type {
	for _, c := range w.CS.Order {
		if c.Kind != "closure" || c.Yields != name {
			continue
		}
		fi := w.closureInfo(c.Key)
		if fi == nil || fi.Lit == nil {
			continue
		}
		sig, ok := fi.Pkg.TypesInfo.TypeOf(fi.Lit).(*types.Signature)
		if !ok || sig.Params().Len() != 1 {
			continue
		}
		ysig, ok := sig.Params().At(0).Type().Underlying().(*types.Signature)
		if !ok {
			continue
		}
		var out []types.Type
		for i := 0; i < ysig.Params().Len(); i++ {
			out = append(out, ysig.Params().At(i).Type())
		}
		return out
	}
	return nil
}

func (w *World) verifyRefinement(key string) *FuncResult {
	res := &FuncResult{Key: key}
	i := strings.Index(key, "/refines#")
	rc := w.CS.ByKey[key[:i]]
	gname := key[i+len("/refines#"):]
	gc := w.CS.ByKey["stream."+gname]
	if rc == nil || gc == nil {
		res.OutOfSubset = "refinement between unknown streams: " + key
		return res
	}
	fi := &FuncInfo{Key: key, Pkg: w.mainPkg()}
	x := &Exec{W: w, Fn: fi, C: &Contract{Key: key, Kind: "refine", Flags: map[string]bool{}}}
	defer func() {
		if r := recover(); r != nil {
			switch e := r.(type) {
			case outOfSubset:
				res.OutOfSubset = e.msg
			case ctransErr:
				res.OutOfSubset = "contract error: " + e.msg
			default:
				panic(r)
			}
			res.Obls = x.Obls
		}
	}()
	x.frameAll = nil
	corr := rc.RefineMap[gname] // ghost variable of G -> ghost variable of R
	rname := strings.TrimPrefix(rc.Key, "stream.")
	fail := func(label, what string) {
		x.emit(&St{vars: map[types.Object]*Val{}, heap: map[string]*Term{}}, oblTemplate{kind: "refine", label: label, clause: what, pos: rc.Pos}, nil, False)
	}
	// an arbitrary well-formed state in which the corresponding ghost variables agree
	base := func() *St {
		st := &St{vars: map[types.Object]*Val{}, heap: map[string]*Term{}, defers: map[int][]deferred{}}
		for _, k := range w.FieldOrder {
			st.heap[k] = x.fresh(k, w.keySort(k))
		}
		for _, g := range sortedKeys(w.GhostVars) {
			gv := w.GhostVars[g]
			st.heap[gv.Key] = x.fresh(gv.Key, gv.Sort)
		}
		x.heapTypingAll(st)
		x.assumeWF(st)
		for _, gvn := range sortedKeys(corr) {
			a, b := w.GhostVars[gvn], w.GhostVars[corr[gvn]]
			if a == nil || b == nil || a.Sort != b.Sort {
				cfail("refines: bad correspondence %s=%s", gvn, corr[gvn])
			}
			x.assume(st, Eq(st.field(a), st.field(b)))
		}
		return st
	}
	ptypes := w.streamParamTypes(rname)
	if len(ptypes) != len(rc.Params) || len(gc.Params) != len(rc.Params) {
		res.OutOfSubset = fmt.Sprintf("refinement %s: cannot determine the types of the yielded values", key)
		return res
	}
	envs := func(st *St) (renv, genv *CEnv) {
		rn, gn := map[string]*Val{}, map[string]*Val{}
		for i, p := range rc.Params {
			v := x.freshVal(st, p, ptypes[i])
			x.paramFacts(st, v)
			rn[p] = v
			gn[gc.Params[i]] = v
		}
		for i, s := range rc.Subjects {
			rn[s] = x.freshSubject(st, rc, i, s)
		}
		for i, s := range gc.Subjects {
			ty := types.Universe.Lookup("any").Type()
			if i < len(gc.SubjTypes) && gc.SubjTypes[i] != "" {
				if t, ok := w.parseTypeText(gc.SubjTypes[i], w.mainPkg()); ok {
					ty = t
				}
			}
			gn[s] = &Val{T: Null, Ty: ty}
		}
		return &CEnv{X: x, Names: rn, St: st, Pkg: w.mainPkg()}, &CEnv{X: x, Names: gn, St: st, Pkg: w.mainPkg()}
	}
	x.wrapCfail("refinement "+key, func() {
		// (requires)
		st := base()
		renv, genv := envs(st)
		for _, r := range rc.Requires {
			x.assume(st, renv.HypFormula(r.Expr))
		}
		for _, r := range gc.Requires {
			x.emit(st, oblTemplate{kind: "refine", label: "requires." + r.Label, clause: r.Text, props: r.Props, pos: r.Pos}, nil, genv.Formula(r.Expr))
		}
		x.Obls = append(x.Obls, &Obligation{Name: key + "/canary#requires", Func: key, Kind: "canary", Label: "requires", Canary: true,
			Hyps: append([]*Term(nil), st.pc...), Goal: False, Clause: "the requires clauses of the refining stream are satisfiable"})
		// (finish)
		old := base()
		st2 := base()
		renv2, genv2 := envs(st2)
		renv2.Old = &CEnv{X: x, Names: renv2.Names, St: old, Pkg: w.mainPkg()}
		genv2.Old = &CEnv{X: x, Names: genv2.Names, St: old, Pkg: w.mainPkg()}
		for _, e := range rc.Ensures {
			x.assume(st2, renv2.HypFormula(e.Expr))
		}
		for _, e := range gc.Ensures {
			x.emit(st2, oblTemplate{kind: "refine", label: "finish." + e.Label, clause: e.Text, props: e.Props, pos: e.Pos}, nil, genv2.Formula(e.Expr))
		}
	})
	// (records): syntactic correspondence
	subst := func(text string) string {
		for _, gvn := range sortedKeys(corr) {
			text = regexp.MustCompile(`\b`+regexp.QuoteMeta(gvn)+`\b`).ReplaceAllString(text, corr[gvn])
		}
		for i, p := range gc.Params {
			if i < len(rc.Params) && p != rc.Params[i] {
				text = regexp.MustCompile(`\b`+regexp.QuoteMeta(p)+`\b`).ReplaceAllString(text, rc.Params[i])
			}
		}
		return text
	}
	norm := func(text string) string {
		e, err := ParseCExpr(text)
		if err != nil {
			return "?" + text
		}
		return e.String()
	}
	rrec := map[string]string{}
	for _, r := range rc.Records {
		rrec[r.Var] = norm(r.Text)
	}
	ok := true
	for _, g := range gc.Records {
		rv, has := corr[g.Var]
		if !has || rrec[rv] == "" || rrec[rv] != norm(subst(g.Text)) {
			ok = false
			fail("records."+g.Var, fmt.Sprintf("stream %s records %s := %s; the refining stream %s must record the corresponding variable in the same way", gname, g.Var, g.Text, rname))
		}
	}
	if gc.Stops != "" && corr[gc.Stops] != rc.Stops {
		ok = false
		fail("records.stops", fmt.Sprintf("stream %s stops %s; the refining stream must stop the corresponding variable", gname, gc.Stops))
	}
	if ok {
		x.Obls = append(x.Obls, &Obligation{Name: key + "/refine#records", Func: key, Kind: "refine", Label: "records", Pos: rc.Pos,
			Clause: "the records and stops clauses of " + gname + " are those of " + rname + " under the declared correspondence of ghost variables", Goal: True, Result: "unsat", Solver: "syntactic"})
	}
	// (frame): key sets
	keysOf := func(items []*ModItem) map[string]bool {
		out := map[string]bool{}
		env := &CEnv{X: x, Names: map[string]*Val{}, St: base(), Pkg: w.mainPkg()}
		for _, m := range items {
			for _, t := range x.modTarget(m, env) {
				out[t.key] = true
			}
		}
		return out
	}
	var bad []string
	x.wrapCfail("frames of refinement "+key, func() {
		gmod, rmod := keysOf(gc.Modifies), keysOf(rc.Modifies)
		for k := range gmod {
			if !rmod[k] {
				bad = append(bad, "consumer of "+gname+" may modify "+k+", which a producer of "+rname+" does not tolerate")
			}
		}
		gres, rres := keysOf(gc.Resumes), keysOf(rc.Resumes)
		rown := map[string]bool{}
		for _, g := range x.recordVars(rc) {
			rown[g.Key] = true
		}
		for k := range rres {
			if !gres[k] {
				bad = append(bad, "resuming a producer of "+rname+" may modify "+k+", which a consumer of "+gname+" does not expect")
			}
		}
		for k := range rown {
			if !gres[k] {
				bad = append(bad, "a producer of "+rname+" records "+k+", which a consumer of "+gname+" does not expect to change on resume")
			}
		}
	})
	sort.Strings(bad)
	if len(bad) > 0 {
		fail("frame", strings.Join(bad, "; "))
	} else {
		x.Obls = append(x.Obls, &Obligation{Name: key + "/refine#frame", Func: key, Kind: "refine", Label: "frame", Pos: rc.Pos,
			Clause: "modifies of " + gname + " within modifies of " + rname + "; resumes and records of " + rname + " within resumes of " + gname, Goal: True, Result: "unsat", Solver: "syntactic"})
	}
	res.Obls = x.Obls
	res.Paths = 1
	return res
}
