package gvc

import (
	"encoding/json"
	"fmt"
	"go/types"
	"os"
	"os/exec"
	"path/filepath"
	"sort"
	"strings"
	"time"
)

// KnownFinding is an entry of /verif/known_findings.json.
type KnownFinding struct {
	Property   string   `json:"property"`
	Properties []string `json:"properties,omitempty"`
	Obligation string   `json:"obligation"` // obligation name (exact)
	What       string   `json:"what"`
	Witness    string   `json:"witness,omitempty"`
	Status     string   `json:"status,omitempty"` // "open" (default) or "fixed"
	Commit     string   `json:"commit,omitempty"`
}

type KnownFindings struct {
	Findings []KnownFinding `json:"findings"`
	Fixed    []string       `json:"fixed,omitempty"`
}

// Lock is the obligation baseline: per property the named obligations that must exist and discharge.
type Lock struct {
	Properties map[string][]string `json:"properties"`
}

// CheckConfig configures one property check.
type CheckConfig struct {
	Property  string
	Tier      string
	Repo      string
	VerifDir  string
	Seed      int
	WriteLock bool
	Quiet     bool
	harness   *harnessRun
}

type funcEvidence struct {
	Key         string   `json:"function"`
	Obligations int      `json:"obligations"`
	Discharged  int      `json:"discharged"`
	Paths       int      `json:"paths"`
	Termination string   `json:"termination"`
	Notes       []string `json:"notes,omitempty"`
}

// closure computes the functions to verify for a property: those with a clause tagged with it,
// everything they call by contract (transitively), the lemmas they use and all spec functions with contracts.
func (w *World) PropertyFunctions(prop string) (tagged []string, all []string) {
	tag := map[string]bool{}
	// streams / protocols tagged with the property: every function or closure bound to them is tagged
	taggedProto := map[string]bool{}
	for _, c := range w.CS.Order {
		if c.Kind == "stream" || c.Kind == "protocol" || c.Kind == "channel" {
			for _, cl := range append(append([]*Clause{}, c.Requires...), c.Ensures...) {
				for _, p := range cl.Props {
					if p == prop {
						taggedProto[strings.TrimPrefix(strings.TrimPrefix(strings.TrimPrefix(c.Key, "stream."), "protocol."), "chan.")] = true
					}
				}
			}
		}
	}
	for _, c := range w.CS.Order {
		if c.Kind != "func" && c.Kind != "closure" {
			continue
		}
		if taggedProto[c.Yields] || (c.Implements != "" && taggedProto[c.Implements]) {
			tag[c.Key] = true
		}
		for _, p := range c.ParamProto {
			if taggedProto[p] {
				tag[c.Key] = true
			}
		}
		for _, cd := range c.Carries {
			if taggedProto[cd.Proto] {
				tag[c.Key] = true
			}
		}
	}
	for _, c := range w.CS.Order {
		if c.Kind != "func" && c.Kind != "lemma" && c.Kind != "spec" && c.Kind != "closure" {
			continue
		}
		has := false
		for _, cl := range append(append(append([]*Clause{}, c.Requires...), c.Ensures...), c.Invariants...) {
			for _, p := range cl.Props {
				if p == prop {
					has = true
				}
			}
		}
		if has {
			tag[c.Key] = true
		}
	}
	// loops tagged
	for _, c := range w.CS.Order {
		if c.Kind == "loop" {
			for _, cl := range c.Invariants {
				for _, p := range cl.Props {
					if p == prop {
						tag[c.Key[:strings.LastIndex(c.Key, "#")]] = true
					}
				}
			}
		}
	}
	// protocols tagged: the functions calling through them are found via their own tags
	seen := map[string]bool{}
	var visit func(k string)
	visit = func(k string) {
		if seen[k] {
			return
		}
		c := w.CS.ByKey[k]
		fi := w.Funcs[k]
		if c != nil && c.Kind == "closure" {
			fi = w.closureInfo(k)
		}
		if i := strings.Index(k, "["); i >= 0 && fi == nil {
			fi = w.Funcs[k[:i]]
		}
		if c == nil && fi != nil {
			// a generic function: its instances carry the contracts
			for _, ic := range w.CS.Order {
				if strings.HasPrefix(ic.Key, k+"[") {
					visit(ic.Key)
				}
			}
		}
		if c == nil || fi == nil || fi.Decl == nil {
			return
		}
		if c.Kind != "func" && c.Kind != "lemma" && c.Kind != "spec" && c.Kind != "closure" {
			return
		}
		if c.Flags["assumed"] || c.Flags["opaque"] {
			return
		}
		seen[k] = true
		// the closures a function creates are part of it
		for i := range fi.LitList {
			visit(fmt.Sprintf("%s#%d", k, i+1))
		}
		for callee := range w.callees(fi) {
			visit(callee)
			for _, ik := range w.implementerKeys(callee) {
				visit(ik)
			}
			// helpers without contracts are inlined: follow their callees too
			if w.CS.ByKey[callee] == nil {
				if hf := w.Funcs[callee]; hf != nil {
					var follow func(f *FuncInfo, depth int)
					follow = func(f *FuncInfo, depth int) {
						if depth > 4 {
							return
						}
						for c2 := range w.callees(f) {
							if w.CS.ByKey[c2] != nil {
								visit(c2)
							} else if f2 := w.Funcs[c2]; f2 != nil {
								follow(f2, depth+1)
							}
						}
					}
					follow(hf, 0)
				}
			}
		}
		for _, u := range c.Uses {
			key := u
			if _, ok := w.CS.ByKey[key]; !ok {
				key = fi.Pkg.Name + "." + u
			}
			visit(key)
		}
	}
	for k := range tag {
		visit(k)
	}
	for _, c := range w.CS.Order {
		if c.Kind == "spec" || c.Kind == "lemma" {
			visit(c.Key)
		}
	}
	// stream refinements: verified with every property whose cone produces or consumes one of the two streams
	used := map[string]bool{}
	for k := range seen {
		if c := w.CS.ByKey[k]; c != nil {
			if c.Yields != "" {
				used[c.Yields] = true
			}
			for _, p := range c.ParamProto {
				used[p] = true
			}
		}
	}
	for _, u := range w.RefinementUnits() {
		i := strings.Index(u, "/refines#")
		if used[strings.TrimPrefix(u[:i], "stream.")] || used[u[i+len("/refines#"):]] {
			seen[u] = true
		}
	}
	tagged = sortedKeys(tag)
	all = sortedKeys(seen)
	return
}

// implementerKeys: for the key of an interface method of the repository (pkg.Iface.method), the keys of that method on
// the implementing types, so that the cone of a property follows dynamic dispatch.
func (w *World) implementerKeys(key string) []string {
	parts := strings.Split(key, ".")
	if len(parts) != 3 {
		return nil
	}
	var out []string
	for _, p := range w.Main {
		if p.Name != parts[0] {
			continue
		}
		tn, ok := p.Types.Scope().Lookup(parts[1]).(*types.TypeName)
		if !ok {
			continue
		}
		iface, ok := tn.Type().Underlying().(*types.Interface)
		if !ok {
			continue
		}
		x := &Exec{W: w}
		for _, n := range x.implementers(iface, parts[2], p.Types) {
			out = append(out, parts[0]+"."+n.Obj().Name()+"."+parts[2])
		}
	}
	return out
}

// AssumedContracts lists contracts that are used but not verified.
func (w *World) AssumedContracts() []string {
	var out []string
	for _, c := range w.CS.Order {
		if c.Flags["assumed"] {
			out = append(out, c.Key+" (assumed: body not verified)")
		}
		if c.Kind == "trusted" {
			out = append(out, c.Key+" (trusted external)")
		}
	}
	sort.Strings(out)
	return out
}

var translationAssumptions = []string{
	"the VC generator gvc itself (own code, no independent checker): /verif/gvc",
	"integers are mathematical (no wrap-around); unsigned values carry a >= 0 range fact",
	"a string is a finite sequence of bytes; slices have value semantics (no aliasing through append); a nil slice and an empty slice are the same value (what an encoder makes of the difference - null vs [] - is not visible)",
	"goroutines are verified one at a time as sequential procedures (channels carry protocols, select is a nondeterministic choice, go checks the callee's precondition and frame): interleavings, blocking, cancellation instants, leaks and races are NOT modelled; contexts have no effect in the model beyond the cancellation bookkeeping; a mutex is a ghost flag of the goroutine under verification (Unlock requires it, Lock sets it, locking functions state that they unlocked on return: no blocking, no other goroutine); a WaitGroup is three counters under a sequential discipline (Add announces, a go statement of a body that 'joins' it uses an announcement up, such a body calls Done exactly once, Wait requires that every announcement was used) and close(ch) sets a flag that a 'closes' clause demands at every return of the producer - necessary conditions for not hanging and for Done/send-after-close not panicking, not a proof of termination; errgroup has a trusted sequential model (Go runs its task once, Wait reports whether a task failed)",
	"facts a goroutine relies on between two of its steps are not invalidated by other goroutines (ownership of a tree travels with the channel message); shared state is covered only by the rely clauses",
	"a closure's precondition is checked where the closure is created and assumed when it runs; a closure runs at most once (true of every closure in the repository: each is consumed by one iter.Pull2, range or go statement)",
	"coroutines (iter.Pull2): nothing about the heap survives a resume of the producer except what the stream contract says; heap separation between trees already yielded and the tree under construction is not modelled",
	"deferred calls run LIFO at every return; panics are not control flow (their absence is an obligation)",
	"allocation returns a reference distinct from everything reachable before; everything stored in the heap is allocated",
	"the heap is finite and the children relation is acyclic (structural recursion on trees is accepted as terminating)",
	"definitional axioms of recursive spec functions (fuel-limited unfolding) are consistent (termination obligations + canaries)",
	"an interface value's dynamic type is one of the implementing types declared in the repository (closed world)",
	"callbacks supplied by the caller do not modify the tree they are shown",
}

// RunCheck runs the check of one property and returns the process exit code.
func RunCheck(cfg CheckConfig) int {
	start := time.Now()
	out := func(format string, a ...any) { fmt.Printf(format+"\n", a...) }
	evPath := filepath.Join(cfg.VerifDir, "evidence", cfg.Property+".json")
	os.MkdirAll(filepath.Dir(evPath), 0o755)
	os.MkdirAll(filepath.Join(cfg.VerifDir, "replays"), 0o755)
	type load struct{ tags, prefix string }
	loads := []load{{"verif", ""}}
	if cfg.Property == "C17" {
		// parity of the two build variants: the wasm functions and the default functions are verified against the same spec functions
		loads = []load{{"tinywasm,verif", "tinywasm:"}, {"verif", ""}}
	}
	timeout := 10
	sc := SolverConfig{TimeoutSec: timeout, Jobs: 16, NoRetry: map[string]bool{}}
	if data, err := os.ReadFile(filepath.Join(cfg.VerifDir, "known_findings.json")); err == nil {
		kf0 := &KnownFindings{}
		if json.Unmarshal(data, kf0) == nil {
			for _, f := range kf0.Findings {
				if f.Status != "fixed" {
					sc.NoRetry[f.Obligation] = true
				}
			}
		}
	}
	if cfg.Tier == "thorough" {
		sc.TimeoutSec = 60
		sc.AllSolvers = true
	}
	var w *World
	var localsLock map[string]*FuncVars
	var obls []*Obligation
	var fev []*funcEvidence
	results := map[string]*FuncResult{}
	var oosFails []*Failure
	var tagged, all []string
	var trustedBase []string
	for _, ld := range loads {
		lw, err := Load(cfg.Repo, ld.tags, filepath.Join(cfg.VerifDir, "gvc", "trusted"))
		if err != nil {
			out("TOOL-ERROR: cannot load %s: %v", cfg.Repo, err)
			// a repository that no longer type-checks cannot satisfy anything
			return toolFailure(cfg, evPath, start, "repository does not load/type-check with -tags "+ld.tags+": "+err.Error())
		}
		localsPath := filepath.Join(cfg.VerifDir, "locals.lock")
		if cfg.WriteLock {
			if localsLock == nil {
				localsLock = map[string]*FuncVars{}
				if data, err := os.ReadFile(localsPath); err == nil {
					json.Unmarshal(data, &localsLock)
				}
			}
			lw.WriteLocalsLock(localsPath, ld.prefix, localsLock)
		} else {
			for _, n := range lw.ApplyLocalsLock(localsPath, ld.prefix) {
				out("NOTE: %s", n)
			}
		}
		lw.InitSpecs()
		if len(lw.Errors) > 0 {
			for _, e := range lw.Errors {
				out("CONTRACT-ERROR: %s", e)
			}
			return toolFailure(cfg, evPath, start, "contract files do not bind: "+lw.Errors[0])
		}
		w = lw
		ltagged, lall := lw.PropertyFunctions(cfg.Property)
		var lobls []*Obligation
		for _, k := range lall {
			r := lw.VerifyFunc(k)
			results[ld.prefix+k] = r
			if r.OutOfSubset != "" {
				oosFails = append(oosFails, &Failure{Name: ld.prefix + k + "/subset", Func: ld.prefix + k, Kind: "out-of-subset", Reason: r.OutOfSubset})
			}
			for _, o := range r.Obls {
				o.Name = ld.prefix + o.Name
				o.Func = ld.prefix + o.Func
			}
			lobls = append(lobls, r.Obls...)
		}
		lw.BG.Discharge(lobls, sc)
		obls = append(obls, lobls...)
		if ld.prefix == "" {
			obls = append(obls, lw.TagObligations(cfg.Property)...)
		}
		for _, k := range ltagged {
			tagged = append(tagged, ld.prefix+k)
		}
		for _, k := range lall {
			all = append(all, ld.prefix+k)
		}
		trustedBase = append(trustedBase, lw.AssumedContracts()...)
		trustedBase = append(trustedBase, lw.TrustedAxioms...)
	}
	fails := append(Evaluate(obls), oosFails...)

	// per-function evidence
	byFunc := map[string][]*Obligation{}
	for _, o := range obls {
		byFunc[o.Func] = append(byFunc[o.Func], o)
	}
	solverCount := map[string]int{}
	solverTime := 0.0
	nObl, nDis := 0, 0
	for _, k := range all {
		fe := &funcEvidence{Key: k, Paths: results[k].Paths, Notes: results[k].Notes}
		for _, o := range byFunc[k] {
			if o.Canary {
				continue
			}
			fe.Obligations++
			if o.Result == "unsat" {
				fe.Discharged++
				solverCount[o.Solver]++
			}
			solverTime += o.Seconds
		}
		c := w.CS.ByKey[strings.TrimPrefix(k, "tinywasm:")]
		switch {
		case c != nil && c.Decreases != nil:
			fe.Termination = "decreases " + c.Decreases.Text
		default:
			fe.Termination = "not claimed (no decreases clause / no recursion)"
		}
		nObl += fe.Obligations
		nDis += fe.Discharged
		fev = append(fev, fe)
	}

	// obligation baseline
	lockPath := filepath.Join(cfg.VerifDir, "obligations.lock")
	lock := &Lock{Properties: map[string][]string{}}
	if data, err := os.ReadFile(lockPath); err == nil {
		json.Unmarshal(data, lock)
	}
	nameSet := map[string]bool{}
	for _, o := range obls {
		if o.Kind == "safety" || o.Canary {
			continue
		}
		nameSet[o.Name] = true
	}
	if cfg.WriteLock {
		lock.Properties[cfg.Property] = sortedKeys(nameSet)
		data, _ := json.MarshalIndent(lock, "", " ")
		os.WriteFile(lockPath, data, 0o644)
	}
	oosFuncs := map[string]bool{}
	for _, f := range oosFails {
		oosFuncs[f.Func] = true
	}
	for _, want := range lock.Properties[cfg.Property] {
		if !nameSet[want] {
			fn := want
			if i := strings.Index(want, "/"); i >= 0 {
				fn = want[:i]
			}
			if oosFuncs[fn] {
				continue // already reported once as out-of-subset
			}
			fails = append(fails, &Failure{Name: want, Func: fn, Kind: "missing", Reason: "obligation of the baseline was not generated (function changed shape, vanished or left the verified subset)"})
		}
	}

	// known findings
	kf := &KnownFindings{}
	if data, err := os.ReadFile(filepath.Join(cfg.VerifDir, "known_findings.json")); err == nil {
		if err := json.Unmarshal(data, kf); err != nil {
			out("TOOL-ERROR: known_findings.json: %v", err)
		}
	}
	known := map[string]*KnownFinding{}
	for i := range kf.Findings {
		f := &kf.Findings[i]
		if f.Status == "fixed" {
			continue
		}
		if f.Property == cfg.Property || containsStr(f.Properties, cfg.Property) {
			known[f.Obligation] = f
		}
	}
	var violations []*Failure
	knownSeen := map[string]bool{}
	knownObl := 0
	for _, f := range fails {
		if k, ok := known[f.Name]; ok {
			if !knownSeen[f.Name] {
				knownSeen[f.Name] = true
				out("KNOWN-FINDING: property=%s %s (%s)", cfg.Property, k.What, f.Name)
			}
			if f.Obl != nil && !f.Obl.Canary {
				knownObl++
			}
			continue
		}
		violations = append(violations, f)
	}
	// findings about assumed contracts (found by the cross-check harness, not by an obligation) are always listed
	for name, k := range known {
		if strings.HasPrefix(name, "assumed:") || strings.HasPrefix(name, "model:") {
			knownSeen[name] = true
			out("KNOWN-FINDING: property=%s %s (%s)", cfg.Property, k.What, name)
		}
	}
	// a listed finding whose obligation now discharges is reported (not an alarm)
	for name, k := range known {
		if !knownSeen[name] {
			out("NOTE: known finding %q (%s) did not reproduce on this tree", k.What, name)
		}
	}

	// a concrete failing input is searched for only when something is violated (or, in the thorough tier, as a cross-check)
	if len(violations) > 0 || cfg.Tier == "thorough" {
		cfg.harness = runHarness(cfg)
	}
	if cfg.Tier == "thorough" && len(violations) == 0 && cfg.harness != nil && len(cfg.harness.Failures) > 0 {
		// run-time contract failure on code whose obligations all discharged: the generator, a trusted contract or the harness is wrong
		for _, hf := range cfg.harness.Failures {
			out("TOOL-ERROR: cross-check: run-time contract failure although every obligation discharged: %s", hf.Message)
		}
	}
	// violations: one line per distinct obligation name
	seenV := map[string]bool{}
	nviol := 0
	for _, f := range violations {
		if seenV[f.Name] {
			continue
		}
		seenV[f.Name] = true
		nviol++
		rp := writeReplay(cfg, w, f, violations)
		suffix := " no-failing-input-found"
		if hf, _ := matchHarness(cfg.harness, f); hf != nil {
			suffix = ""
		}
		out("VIOLATION property=%s replay=%s obligation=%s reason=%s%s", cfg.Property, rp, f.Name, oneLine(f.Reason), suffix)
	}

	// evidence
	var samples []map[string]any
	sampled := map[string]bool{}
	for _, o := range obls {
		if o.Canary || o.Kind == "safety" || sampled[o.Name] {
			continue
		}
		if len(samples) >= 40 {
			break
		}
		isTagged := false
		for _, p := range o.Props {
			if p == cfg.Property {
				isTagged = true
			}
		}
		if !isTagged {
			continue
		}
		sampled[o.Name] = true
		samples = append(samples, map[string]any{"obligation": o.Name, "clause": o.Clause, "result": o.Result, "solver": o.Solver, "seconds": round3(o.Seconds), "hypotheses": len(o.Hyps)})
	}
	if len(samples) == 0 {
		for _, o := range obls {
			if !o.Canary && len(samples) < 5 {
				samples = append(samples, map[string]any{"obligation": o.Name, "clause": o.Clause, "result": o.Result, "solver": o.Solver})
			}
		}
	}
	canaries, canOK := 0, 0
	for _, o := range obls {
		if o.Canary {
			canaries++
			if o.Result != "unsat" {
				canOK++
			}
		}
	}
	level := "proof"
	if cfg.Property == "C16" {
		level = "other" // only part of the statement is decided by contracts (see MANIFEST level_note)
	}
	ev := map[string]any{
		"property_id": cfg.Property,
		"tier":        cfg.Tier,
		"seed":        cfg.Seed,
		"level":       level,
		"wall_s":      round3(time.Since(start).Seconds()),
		"violations":  nviol,
		"coverage": map[string]any{
			"obligations":               nObl - knownObl,
			"discharged":                nDis,
			"checker_cmd":               fmt.Sprintf("/verif/check %s %s", cfg.Property, cfg.Tier),
			"trusted_base":              dedupe(trustedBase),
			"samples":                   samples,
			"functions_under_contract":  fev,
			"functions_tagged":          tagged,
			"back_ends":                 solverCount,
			"solver_seconds":            round3(solverTime),
			"vacuity_guards":            map[string]int{"canaries_and_covers": canaries, "not_provable_as_required": canOK},
			"known_finding_obligations": knownObl,
			"baseline_obligation_names": len(lock.Properties[cfg.Property]),
			"cross_check":               crossCheckEvidence(cfg.harness),
			"explanation":               "every obligation generated from the current source of the functions in this property's cone was sent to the SMT portfolio; 'discharged' counts unsat answers",
		},
		"assumptions": translationAssumptions,
	}
	data, _ := json.MarshalIndent(ev, "", " ")
	if err := os.WriteFile(evPath, data, 0o644); err != nil {
		out("TOOL-ERROR: cannot write evidence: %v", err)
		return 2
	}
	if !cfg.Quiet {
		out("property %s: %d functions, %d obligations, %d discharged, %d known-finding obligations, %d violations, %.1fs",
			cfg.Property, len(all), nObl, nDis, knownObl, nviol, time.Since(start).Seconds())
	}
	if nviol > 0 {
		return 1
	}
	return 0
}

func crossCheckEvidence(hr *harnessRun) any {
	if hr == nil || !hr.Ran {
		return "not run in this tier (the run-time contract harness runs in the thorough tier and when an obligation fails)"
	}
	return map[string]any{"what": "run-time evaluation of the contracts on enumerated inputs against the real code (decides nothing; cross-checks the generator and the trusted contracts)",
		"passed": hr.OK, "failures": hr.Failures, "seconds": round3(hr.Seconds)}
}

func dedupe(xs []string) []string {
	seen := map[string]bool{}
	var out []string
	for _, x := range xs {
		if !seen[x] {
			seen[x] = true
			out = append(out, x)
		}
	}
	sort.Strings(out)
	return out
}

func containsStr(xs []string, s string) bool {
	for _, x := range xs {
		if x == s {
			return true
		}
	}
	return false
}

func oneLine(s string) string {
	s = strings.ReplaceAll(s, "\n", " ")
	if len(s) > 160 {
		s = s[:160] + "..."
	}
	return strings.ReplaceAll(s, " ", "_")
}

func round3(f float64) float64 { return float64(int(f*1000+0.5)) / 1000 }

func toolFailure(cfg CheckConfig, evPath string, start time.Time, reason string) int {
	rp := filepath.Join(cfg.VerifDir, "replays", cfg.Property+"-load.json")
	data, _ := json.MarshalIndent(map[string]any{"property": cfg.Property, "obligation": "load", "reason": reason}, "", " ")
	os.WriteFile(rp, data, 0o644)
	ev := map[string]any{
		"property_id": cfg.Property, "tier": cfg.Tier, "seed": cfg.Seed, "level": "proof",
		"wall_s": round3(time.Since(start).Seconds()), "violations": 1,
		"coverage": map[string]any{"evaluations": 1, "distinct_nontrivial": 2, "explanation": reason},
	}
	d, _ := json.MarshalIndent(ev, "", " ")
	os.WriteFile(evPath, d, 0o644)
	fmt.Printf("VIOLATION property=%s replay=%s obligation=load reason=%s no-failing-input-found\n", cfg.Property, rp, oneLine(reason))
	return 1
}

// harnessFailure is a concrete failing input found by the run-time contract harness (/verif/replay).
type harnessFailure struct {
	Name    string `json:"obligation"`
	Message string `json:"message"`
	Test    string `json:"test"`
}

type harnessRun struct {
	Ran      bool
	Cmd      string
	Failures []harnessFailure
	OK       []string
	Output   string
	Seconds  float64
}

// runHarness executes the replay harness against the working tree of cfg.Repo (tests are injected with -overlay).
func runHarness(cfg CheckConfig) *harnessRun {
	hr := &harnessRun{}
	ovPath := filepath.Join(os.TempDir(), fmt.Sprintf("gvc-overlay-%d.json", os.Getpid()))
	ov := map[string]map[string]string{"Replace": {
		filepath.Join(cfg.Repo, "markdown", "zz_replay_test.go"):     filepath.Join(cfg.VerifDir, "replay", "markdown_replay_test.go"),
		filepath.Join(cfg.Repo, "zz_replay_test.go"):                 filepath.Join(cfg.VerifDir, "replay", "gtree_replay_test.go"),
		filepath.Join(cfg.Repo, "cmd", "gtree", "zz_replay_test.go"): filepath.Join(cfg.VerifDir, "replay", "cmd_replay_test.go"),
	}}
	data, _ := json.Marshal(ov)
	if err := os.WriteFile(ovPath, data, 0o644); err != nil {
		return hr
	}
	defer os.Remove(ovPath)
	args := []string{"test", "-tags", "verif", "-overlay", ovPath, "-vet=off", "-count=1", "-timeout", "300s", "-run", "TestReplay_", "-v", ".", "./markdown", "./cmd/gtree"}
	hr.Cmd = "cd " + cfg.Repo + " && GOFLAGS=-mod=mod GOPROXY=off go " + strings.Join(args, " ") + "   (overlay: " + string(data) + ")"
	cmd := exec.Command("go", args...)
	cmd.Dir = cfg.Repo
	cmd.Env = append(os.Environ(), "GOFLAGS=-mod=mod", "GOPROXY=off")
	start := time.Now()
	out, _ := cmd.CombinedOutput()
	hr.Seconds = time.Since(start).Seconds()
	hr.Ran = true
	hr.Output = string(out)
	hr.parse(string(out), "")
	if cfg.Property == "C17" || cfg.Property == "" {
		hr.runWasm(cfg)
	}
	return hr
}

// parse collects REPLAY-FAIL / REPLAY-OK lines of a harness run; prefix is put in front of the obligation names
// ("tinywasm:" for the wasm variant, whose obligations carry that prefix).
func (hr *harnessRun) parse(out string, prefix string) {
	cur := ""
	for _, ln := range strings.Split(out, "\n") {
		t := strings.TrimSpace(ln)
		if strings.HasPrefix(t, "=== RUN") {
			cur = strings.TrimSpace(strings.TrimPrefix(t, "=== RUN"))
		}
		if i := strings.Index(t, "REPLAY-FAIL "); i >= 0 {
			rest := prefix + t[i+len("REPLAY-FAIL "):]
			name := rest
			if j := strings.Index(rest, " "); j >= 0 {
				name = rest[:j]
			}
			hr.Failures = append(hr.Failures, harnessFailure{Name: name, Message: rest, Test: cur})
		}
		if i := strings.Index(t, "REPLAY-OK "); i >= 0 {
			hr.OK = append(hr.OK, t[i+len("REPLAY-OK "):])
		}
	}
	if len(hr.Failures) == 0 && strings.Contains(out, "panic:") {
		hr.Failures = append(hr.Failures, harnessFailure{Name: prefix + "panic", Message: "the harness run panicked: " + firstLineWith(out, "panic:"), Test: cur})
	}
}

// runWasm runs the harness of the tinywasm variant (file-list mode: the repository's external test packages do not
// build with that tag).
func (hr *harnessRun) runWasm(cfg CheckConfig) {
	ovPath := filepath.Join(os.TempDir(), fmt.Sprintf("gvc-overlay-wasm-%d.json", os.Getpid()))
	ov := map[string]map[string]string{"Replace": {
		filepath.Join(cfg.Repo, "zz_wasm_replay_test.go"): filepath.Join(cfg.VerifDir, "replay", "wasm_replay_test.go"),
	}}
	data, _ := json.Marshal(ov)
	if err := os.WriteFile(ovPath, data, 0o644); err != nil {
		return
	}
	defer os.Remove(ovPath)
	env := append(os.Environ(), "GOFLAGS=-mod=mod", "GOPROXY=off")
	list := exec.Command("go", "list", "-tags", "tinywasm,verif", "-f", "{{range .GoFiles}}{{.}} {{end}}", ".")
	list.Dir = cfg.Repo
	list.Env = env
	files, err := list.Output()
	if err != nil {
		return
	}
	args := []string{"test", "-tags", "tinywasm,verif", "-overlay", ovPath, "-vet=off", "-count=1", "-timeout", "300s", "-run", "TestReplay_", "-v"}
	args = append(args, strings.Fields(string(files))...)
	args = append(args, "zz_wasm_replay_test.go")
	cmd := exec.Command("go", args...)
	cmd.Dir = cfg.Repo
	cmd.Env = env
	start := time.Now()
	out, _ := cmd.CombinedOutput()
	hr.Seconds += time.Since(start).Seconds()
	hr.Output += string(out)
	hr.Cmd += "; tinywasm variant: go test -tags tinywasm,verif (file-list mode) -run TestReplay_ with /verif/replay/wasm_replay_test.go"
	hr.parse(string(out), "tinywasm:")
}

// Replay re-runs the run-time contract harness against the current tree and prints what it finds.
func Replay(repo, verifDir, file string) int {
	if data, err := os.ReadFile(file); err == nil {
		var rec map[string]any
		if json.Unmarshal(data, &rec) == nil {
			fmt.Printf("replay file %s\n  property:   %v\n  obligation: %v\n  reason:     %v\n", file, rec["property"], rec["obligation"], rec["reason"])
			if fi, ok := rec["failing_input"].(map[string]any); ok && fi != nil {
				fmt.Printf("  recorded failing input: %v\n", fi["report"])
			} else {
				fmt.Println("  recorded failing input: none (no-failing-input-found)")
			}
		}
	}
	hr := runHarness(CheckConfig{Repo: repo, VerifDir: verifDir})
	for _, ok := range hr.OK {
		fmt.Println("REPLAY-OK", ok)
	}
	for _, f := range hr.Failures {
		fmt.Println("REPLAY-CONFIRMED", f.Message)
	}
	if len(hr.Failures) > 0 {
		return 1
	}
	return 0
}

func firstLineWith(s, sub string) string {
	for _, ln := range strings.Split(s, "\n") {
		if strings.Contains(ln, sub) {
			return strings.TrimSpace(ln)
		}
	}
	return ""
}

// matchHarness picks the failing input that belongs to a failed obligation: same function first, any other otherwise.
func matchHarness(hr *harnessRun, f *Failure) (*harnessFailure, string) {
	if hr == nil || len(hr.Failures) == 0 {
		return nil, ""
	}
	fn := strings.TrimPrefix(f.Func, "tinywasm:")
	for i := range hr.Failures {
		if strings.HasPrefix(hr.Failures[i].Name, fn+"/") {
			return &hr.Failures[i], "exact (same function)"
		}
	}
	return &hr.Failures[0], "related (the input fails a contract evaluated at run time on this tree; the harness passes on the unchanged tree)"
}

func writeReplay(cfg CheckConfig, w *World, f *Failure, all []*Failure) string {
	name := strings.NewReplacer("/", "_", "#", "-", "@", "_", ":", "_", " ", "_").Replace(f.Name)
	rp := filepath.Join(cfg.VerifDir, "replays", cfg.Property+"-"+name+".json")
	rec := map[string]any{
		"property":      cfg.Property,
		"obligation":    f.Name,
		"function":      f.Func,
		"kind":          f.Kind,
		"reason":        f.Reason,
		"failing_input": nil,
		"note":          "no-failing-input-found: the verifier's back ends return no model over the quantified background; the obligation below passed on the unchanged tree and is not discharged on this one",
	}
	if hf, how := matchHarness(cfg.harness, f); hf != nil {
		rec["failing_input"] = map[string]any{"found_by": "bounded run-time contract search (/verif/replay), executed against the real code of this tree", "match": how, "harness_test": hf.Test, "report": hf.Message}
		rec["replay_cmd"] = cfg.harness.Cmd
		rec["note"] = "the obligation below is not discharged on this tree; the failing input was found by executing the real code with the contract evaluated at run time"
	}
	var insts []map[string]any
	for _, g := range all {
		if g.Name != f.Name || g.Obl == nil {
			continue
		}
		o := g.Obl
		inst := map[string]any{"clause": o.Clause, "position": o.Pos, "goal": o.Goal.String(), "path": o.Trace, "solver_outputs": o.Outputs, "result": o.Result}
		if len(insts) == 0 {
			inst["smt_script"] = o.Script
		}
		insts = append(insts, inst)
		if len(insts) >= 4 {
			break
		}
	}
	rec["instances"] = insts
	data, _ := json.MarshalIndent(rec, "", " ")
	os.WriteFile(rp, data, 0o644)
	return rp
}

// RunAll verifies every unit under contract once (both build variants) and compares with the union of the obligation
// baselines of all properties: the same verdict as running every property's check, at a fraction of the cost. It is used by
// the false-alarm corpus (tools/run_benign.py); it writes no evidence and decides no single property.
func RunAll(repo, verifDir string) int {
	type load struct{ tags, prefix string }
	var obls []*Obligation
	var fails []*Failure
	names := map[string]bool{}
	oosFuncs := map[string]bool{}
	for _, ld := range []load{{"verif", ""}, {"tinywasm,verif", "tinywasm:"}} {
		w, err := Load(repo, ld.tags, filepath.Join(verifDir, "gvc", "trusted"))
		if err != nil {
			fmt.Printf("ALARM load %s: %v\n", ld.tags, err)
			return 1
		}
		for _, n := range w.ApplyLocalsLock(filepath.Join(verifDir, "locals.lock"), ld.prefix) {
			fmt.Println("NOTE:", n)
		}
		w.InitSpecs()
		if len(w.Errors) > 0 {
			fmt.Printf("ALARM contracts do not bind: %s\n", w.Errors[0])
			return 1
		}
		var lobls []*Obligation
		for _, k := range w.ContractedFuncs() {
			r := w.VerifyFunc(k)
			if r.OutOfSubset != "" {
				fails = append(fails, &Failure{Name: ld.prefix + k + "/subset", Func: ld.prefix + k, Kind: "out-of-subset", Reason: r.OutOfSubset})
				oosFuncs[ld.prefix+k] = true
			}
			for _, o := range r.Obls {
				o.Name = ld.prefix + o.Name
				o.Func = ld.prefix + o.Func
			}
			lobls = append(lobls, r.Obls...)
		}
		w.BG.Discharge(lobls, SolverConfig{TimeoutSec: 10, Jobs: 16})
		obls = append(obls, lobls...)
		if ld.prefix == "" {
			for _, p := range []string{"C04"} {
				obls = append(obls, w.TagObligations(p)...)
			}
		}
	}
	for _, o := range obls {
		if o.Kind != "safety" && !o.Canary {
			names[o.Name] = true
		}
	}
	fails = append(fails, Evaluate(obls)...)
	lock := &Lock{Properties: map[string][]string{}}
	if data, err := os.ReadFile(filepath.Join(verifDir, "obligations.lock")); err == nil {
		json.Unmarshal(data, lock)
	}
	seenWant := map[string]bool{}
	for _, ws := range lock.Properties {
		for _, want := range ws {
			if seenWant[want] || names[want] {
				continue
			}
			seenWant[want] = true
			fn := want
			if i := strings.Index(want, "/"); i >= 0 {
				fn = want[:i]
			}
			if oosFuncs[fn] {
				continue
			}
			fails = append(fails, &Failure{Name: want, Func: fn, Kind: "missing", Reason: "obligation of the baseline was not generated"})
		}
	}
	known := map[string]bool{}
	kf := &KnownFindings{}
	if data, err := os.ReadFile(filepath.Join(verifDir, "known_findings.json")); err == nil {
		json.Unmarshal(data, kf)
	}
	for _, f := range kf.Findings {
		if f.Status != "fixed" {
			known[f.Obligation] = true
		}
	}
	n := 0
	seen := map[string]bool{}
	for _, f := range fails {
		if known[f.Name] || seen[f.Name] {
			continue
		}
		seen[f.Name] = true
		n++
		fmt.Printf("ALARM %s %s\n", f.Name, oneLine(f.Reason))
	}
	fmt.Printf("all: %d obligations, %d alarms\n", len(obls), n)
	if n > 0 {
		return 1
	}
	return 0
}
