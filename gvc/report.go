package gvc

import "sort"

// Failure is an obligation (or vacuity guard) that did not come out as required.
type Failure struct {
	Name   string
	Func   string
	Kind   string
	Reason string
	Obl    *Obligation
}

// Evaluate applies the verdict rules: every proper obligation must be unsat; a cover must not be
// refutable; at least one exit canary per function must not be provable.
func Evaluate(obls []*Obligation) []*Failure {
	var out []*Failure
	canaries := map[string][]*Obligation{}
	for _, o := range obls {
		switch {
		case o.Kind == "canary":
			canaries[o.Func] = append(canaries[o.Func], o)
		case o.Kind == "cover":
			if o.Result == "unsat" {
				out = append(out, &Failure{Name: o.Name, Func: o.Func, Kind: "vacuity", Reason: "precondition together with the global invariant is unsatisfiable", Obl: o})
			}
		default:
			if o.Result != "unsat" {
				out = append(out, &Failure{Name: o.Name, Func: o.Func, Kind: o.Kind, Reason: o.Result, Obl: o})
			}
		}
	}
	for f, cs := range canaries {
		feasible := false
		for _, c := range cs {
			if c.Result != "unsat" {
				feasible = true
			}
		}
		if !feasible {
			out = append(out, &Failure{Name: f + "/canary#exit", Func: f, Kind: "vacuity", Reason: "every sampled exit path has contradictory hypotheses", Obl: cs[0]})
		}
	}
	sort.SliceStable(out, func(i, j int) bool { return out[i].Name < out[j].Name })
	return out
}
