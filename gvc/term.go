package gvc

import (
	"fmt"
	"sort"
	"strconv"
	"strings"
)

// Sort is an SMT sort name.
type Sort string

const (
	SInt    Sort = "Int"
	SBool   Sort = "Bool"
	SRef    Sort = "Ref"
	SStr    Sort = "Str"    // sequence of bytes (Int)
	SSeqRef Sort = "SeqRef" // sequence of Ref
	SSeqStr Sort = "SeqStr" // sequence of Str
	SSeqInt Sort = "Str"
	SType   Sort = "Type"
	SFuel   Sort = "Fuel"
	SSetStr Sort = "Set.Str"
)

// ArrSort names the map sort from k to v. Maps are axiomatised (sel/upd), not SMT arrays:
// with the built-in array theory z3 does not terminate on unprovable goals over the heap.
func ArrSort(k, v Sort) Sort {
	if k == SRef {
		return Sort("H." + string(v))
	}
	if k == SStr && v == SBool {
		return "Set.Str"
	}
	panic("unsupported map sort " + string(k) + " -> " + string(v))
}

func (s Sort) IsSeq() bool { return s == SStr || s == SSeqRef || s == SSeqStr }
func (s Sort) Elem() Sort {
	switch s {
	case SStr:
		return SInt
	case SSeqRef:
		return SRef
	case SSeqStr:
		return SStr
	}
	panic("not a seq sort: " + string(s))
}
func (s Sort) IsArr() bool { return strings.HasPrefix(string(s), "H.") || s == "Set.Str" }
func (s Sort) ArrParts() (Sort, Sort) {
	if s == "Set.Str" {
		return SStr, SBool
	}
	if strings.HasPrefix(string(s), "H.") {
		return SRef, Sort(string(s)[2:])
	}
	panic("bad map sort " + string(s))
}

// SeqOf returns the sequence sort for an element sort.
func SeqOf(e Sort) (Sort, bool) {
	switch e {
	case SInt:
		return SStr, true
	case SRef:
		return SSeqRef, true
	case SStr:
		return SSeqStr, true
	}
	return "", false
}

// Term is a logical term or formula.
type Term struct {
	Op   string
	Args []*Term
	Sort Sort
	// quantifiers
	Vars []*Term
	Pats [][]*Term
	QID  string
	Wit  []*Term // witness hints for an existential goal (one per bound variable)
	// string literal payload
	Lit string
}

func (t *Term) IsQuant() bool { return t.Op == "forall" || t.Op == "exists" }

func mk(op string, s Sort, args ...*Term) *Term { return &Term{Op: op, Sort: s, Args: args} }

var (
	True  = mk("true", SBool)
	False = mk("false", SBool)
	Null  = mk("null", SRef)
)

func IntLit(n int64) *Term {
	if n < 0 {
		return mk("-", SInt, mk(strconv.FormatInt(-n, 10), SInt))
	}
	return mk(strconv.FormatInt(n, 10), SInt)
}

func (t *Term) IntVal() (int64, bool) {
	if t.Sort != SInt {
		return 0, false
	}
	if len(t.Args) == 0 {
		n, err := strconv.ParseInt(t.Op, 10, 64)
		return n, err == nil
	}
	if t.Op == "-" && len(t.Args) == 1 {
		n, ok := t.Args[0].IntVal()
		return -n, ok
	}
	return 0, false
}

func Var(name string, s Sort) *Term { return mk(name, s) }

// StrLit returns the term for a byte-string literal.
func StrLit(s string) *Term {
	switch len(s) {
	case 0:
		return SeqEmpty(SStr)
	case 1:
		return SeqUnit(SStr, IntLit(int64(s[0])))
	}
	return &Term{Op: "$strlit", Sort: SStr, Lit: s}
}

func (t *Term) StrVal() (string, bool) {
	if t.Sort != SStr {
		return "", false
	}
	if t.Op == "$strlit" {
		return t.Lit, true
	}
	if t.Op == "empty.Str" {
		return "", true
	}
	if t.Op == "unit.Str" {
		if n, ok := t.Args[0].IntVal(); ok && n >= 0 && n < 256 {
			return string([]byte{byte(n)}), true
		}
	}
	return "", false
}

func SeqEmpty(s Sort) *Term         { return mk("empty."+string(s), s) }
func SeqUnit(s Sort, e *Term) *Term { return mk("unit."+string(s), s, e) }
func SeqLen(a *Term) *Term {
	if v, ok := a.StrVal(); ok {
		return IntLit(int64(len(v)))
	}
	if a.Op == "empty."+string(a.Sort) {
		return IntLit(0)
	}
	if a.Op == "unit."+string(a.Sort) {
		return IntLit(1)
	}
	return mk("len."+string(a.Sort), SInt, a)
}
func SeqAt(a, i *Term) *Term       { return mk("at."+string(a.Sort), a.Sort.Elem(), a, i) }
func SeqTake(a, n *Term) *Term     { return mk("take."+string(a.Sort), a.Sort, a, n) }
func SeqDrop(a, n *Term) *Term     { return mk("drop."+string(a.Sort), a.Sort, a, n) }
func SeqContains(a, e *Term) *Term { return mk("contains."+string(a.Sort), SBool, a, e) }
func SeqEq(a, b *Term) *Term       { return mk("eq."+string(a.Sort), SBool, a, b) }

// SeqCat builds a right-nested concatenation, dropping empties and merging literals.
func SeqCat(a, b *Term) *Term {
	s := a.Sort
	parts := append(catParts(a), catParts(b)...)
	// merge adjacent string literals
	if s == SStr {
		var out []*Term
		for _, p := range parts {
			if len(out) > 0 {
				if l, ok := out[len(out)-1].StrVal(); ok {
					if r, ok2 := p.StrVal(); ok2 {
						out[len(out)-1] = StrLit(l + r)
						continue
					}
				}
			}
			out = append(out, p)
		}
		parts = out
	}
	if len(parts) == 0 {
		return SeqEmpty(s)
	}
	r := parts[len(parts)-1]
	for i := len(parts) - 2; i >= 0; i-- {
		r = mk("cat."+string(s), s, parts[i], r)
	}
	return r
}

func catParts(a *Term) []*Term {
	if a.Op == "cat."+string(a.Sort) {
		return append(catParts(a.Args[0]), catParts(a.Args[1])...)
	}
	if a.Op == "empty."+string(a.Sort) {
		return nil
	}
	return []*Term{a}
}

func SeqPush(a, e *Term) *Term { return SeqCat(a, SeqUnit(a.Sort, e)) }

func Not(a *Term) *Term {
	switch a.Op {
	case "true":
		return False
	case "false":
		return True
	case "not":
		return a.Args[0]
	}
	return mk("not", SBool, a)
}

func And(as ...*Term) *Term {
	var out []*Term
	for _, a := range as {
		if a.Op == "true" {
			continue
		}
		if a.Op == "false" {
			return False
		}
		if a.Op == "and" {
			out = append(out, a.Args...)
			continue
		}
		out = append(out, a)
	}
	switch len(out) {
	case 0:
		return True
	case 1:
		return out[0]
	}
	return mk("and", SBool, out...)
}

func Or(as ...*Term) *Term {
	var out []*Term
	for _, a := range as {
		if a.Op == "false" {
			continue
		}
		if a.Op == "true" {
			return True
		}
		if a.Op == "or" {
			out = append(out, a.Args...)
			continue
		}
		out = append(out, a)
	}
	switch len(out) {
	case 0:
		return False
	case 1:
		return out[0]
	}
	return mk("or", SBool, out...)
}

func Implies(a, b *Term) *Term {
	if a.Op == "true" {
		return b
	}
	if a.Op == "false" || b.Op == "true" {
		return True
	}
	return mk("=>", SBool, a, b)
}

func Iff(a, b *Term) *Term { return mk("=", SBool, a, b) }

func Eq(a, b *Term) *Term {
	if a.Sort != b.Sort {
		panic(fmt.Sprintf("Eq: sort mismatch %s vs %s (%s, %s)", a.Sort, b.Sort, a, b))
	}
	if a == b || a.String() == b.String() {
		return True
	}
	if x, ok := a.IntVal(); ok {
		if y, ok2 := b.IntVal(); ok2 {
			if x == y {
				return True
			}
			return False
		}
	}
	if x, ok := a.StrVal(); ok {
		if y, ok2 := b.StrVal(); ok2 {
			if x == y {
				return True
			}
			return False
		}
	}
	return mk("=", SBool, a, b)
}

func Neq(a, b *Term) *Term { return Not(Eq(a, b)) }

func Ite(c, a, b *Term) *Term {
	if c.Op == "true" {
		return a
	}
	if c.Op == "false" {
		return b
	}
	if a.Sort == SBool {
		return And(Implies(c, a), Implies(Not(c), b))
	}
	return mk("ite", a.Sort, c, a, b)
}

func Arith(op string, a, b *Term) *Term {
	if x, ok := a.IntVal(); ok {
		if y, ok2 := b.IntVal(); ok2 {
			switch op {
			case "+":
				return IntLit(x + y)
			case "-":
				return IntLit(x - y)
			case "*":
				return IntLit(x * y)
			}
		}
	}
	if y, ok := b.IntVal(); ok && y == 0 && (op == "+" || op == "-") {
		return a
	}
	// (x + c1) + c2, (x + c1) - c2
	if y, ok := b.IntVal(); ok && (op == "+" || op == "-") && (a.Op == "+" || a.Op == "-") && len(a.Args) == 2 {
		if c1, ok2 := a.Args[1].IntVal(); ok2 {
			if a.Op == "-" {
				c1 = -c1
			}
			if op == "-" {
				y = -y
			}
			c := c1 + y
			if c == 0 {
				return a.Args[0]
			}
			if c > 0 {
				return mk("+", SInt, a.Args[0], IntLit(c))
			}
			return mk("-", SInt, a.Args[0], IntLit(-c))
		}
	}
	return mk(op, SInt, a, b)
}

func Cmp(op string, a, b *Term) *Term {
	if x, ok := a.IntVal(); ok {
		if y, ok2 := b.IntVal(); ok2 {
			var r bool
			switch op {
			case "<":
				r = x < y
			case "<=":
				r = x <= y
			case ">":
				r = x > y
			case ">=":
				r = x >= y
			}
			if r {
				return True
			}
			return False
		}
	}
	return mk(op, SBool, a, b)
}

func Select(arr, idx *Term) *Term {
	_, v := arr.Sort.ArrParts()
	return mk("sel."+string(arr.Sort), v, arr, idx)
}
func Store(arr, idx, val *Term) *Term {
	if _, v := arr.Sort.ArrParts(); v == SBool {
		switch val.Op {
		case "true":
			return mk("add."+string(arr.Sort), arr.Sort, arr, idx)
		case "false":
			return mk("del."+string(arr.Sort), arr.Sort, arr, idx)
		}
		return mk("ite", arr.Sort, val, mk("add."+string(arr.Sort), arr.Sort, arr, idx), mk("del."+string(arr.Sort), arr.Sort, arr, idx))
	}
	return mk("upd."+string(arr.Sort), arr.Sort, arr, idx, val)
}

func App(name string, s Sort, args ...*Term) *Term { return mk(name, s, args...) }

func Forall(vars []*Term, pats [][]*Term, body *Term, qid string) *Term {
	if len(vars) == 0 {
		return body
	}
	if body.Op == "true" {
		return True
	}
	return &Term{Op: "forall", Sort: SBool, Vars: vars, Pats: pats, Args: []*Term{body}, QID: qid}
}
func Exists(vars []*Term, pats [][]*Term, body *Term, qid string) *Term {
	if len(vars) == 0 {
		return body
	}
	return &Term{Op: "exists", Sort: SBool, Vars: vars, Pats: pats, Args: []*Term{body}, QID: qid}
}

func smtSym(s string) string {
	for _, c := range s {
		if !(c >= 'a' && c <= 'z' || c >= 'A' && c <= 'Z' || c >= '0' && c <= '9' || strings.ContainsRune("_.!$@-+*/<=>", c)) {
			return "|" + s + "|"
		}
	}
	return s
}

// String prints SMT-LIB.
func (t *Term) String() string {
	var sb strings.Builder
	t.write(&sb, true)
	return sb.String()
}

// StringNoQID prints without :qid annotations (cvc5 rejects them).
func (t *Term) StringNoQID() string {
	var sb strings.Builder
	t.write(&sb, false)
	return sb.String()
}

func (t *Term) write(sb *strings.Builder, qid bool) {
	switch {
	case t.Op == "$strlit":
		sb.WriteString(strLitSym(t.Lit))
	case t.IsQuant():
		sb.WriteString("(" + t.Op + " (")
		for _, v := range t.Vars {
			sb.WriteString("(" + smtSym(v.Op) + " " + string(v.Sort) + ")")
		}
		sb.WriteString(") ")
		annotated := len(t.Pats) > 0 || (qid && t.QID != "")
		if annotated {
			sb.WriteString("(! ")
		}
		t.Args[0].write(sb, qid)
		for _, p := range t.Pats {
			sb.WriteString(" :pattern (")
			for i, pt := range p {
				if i > 0 {
					sb.WriteString(" ")
				}
				pt.write(sb, qid)
			}
			sb.WriteString(")")
		}
		if qid && t.QID != "" {
			sb.WriteString(" :qid " + smtSym(t.QID))
		}
		if annotated {
			sb.WriteString(")")
		}
		sb.WriteString(")")
	case len(t.Args) == 0:
		sb.WriteString(smtSym(t.Op))
	default:
		sb.WriteString("(" + smtSym(t.Op))
		for _, a := range t.Args {
			sb.WriteString(" ")
			a.write(sb, qid)
		}
		sb.WriteString(")")
	}
}

func strLitSym(s string) string {
	var sb strings.Builder
	sb.WriteString("lit!")
	for i := 0; i < len(s); i++ {
		c := s[i]
		if c >= 'a' && c <= 'z' || c >= 'A' && c <= 'Z' || c >= '0' && c <= '9' {
			sb.WriteByte(c)
		} else {
			fmt.Fprintf(&sb, "_%02x", c)
		}
	}
	return sb.String()
}

// Subst replaces free variables (by Op name, zero-arity) according to m.
func (t *Term) Subst(m map[string]*Term) *Term {
	if len(m) == 0 {
		return t
	}
	if len(t.Args) == 0 && !t.IsQuant() {
		if r, ok := m[t.Op]; ok && t.Op != "$strlit" {
			return r
		}
		return t
	}
	if t.IsQuant() {
		m2 := m
		for _, v := range t.Vars {
			if _, ok := m2[v.Op]; ok {
				if &m2 == &m || true {
					c := map[string]*Term{}
					for k, x := range m {
						c[k] = x
					}
					m2 = c
				}
				delete(m2, v.Op)
			}
		}
		nt := *t
		nt.Args = []*Term{t.Args[0].Subst(m2)}
		nt.Wit = nil
		for _, wt := range t.Wit {
			nt.Wit = append(nt.Wit, wt.Subst(m))
		}
		nt.Pats = nil
		for _, p := range t.Pats {
			var np []*Term
			for _, pt := range p {
				np = append(np, pt.Subst(m2))
			}
			nt.Pats = append(nt.Pats, np)
		}
		return &nt
	}
	changed := false
	args := make([]*Term, len(t.Args))
	for i, a := range t.Args {
		args[i] = a.Subst(m)
		if args[i] != a {
			changed = true
		}
	}
	if !changed {
		return t
	}
	nt := *t
	nt.Args = args
	return &nt
}

// Collect gathers string literals, zero-arity symbol names (with sorts) and applied operator names used in t.
func (t *Term) Collect(lits map[string]bool, syms map[string]Sort, ops map[string]bool) {
	if t.Op == "$strlit" {
		lits[t.Lit] = true
		return
	}
	if t.IsQuant() {
		inner := map[string]Sort{}
		t.Args[0].Collect(lits, inner, ops)
		for _, p := range t.Pats {
			for _, pt := range p {
				pt.Collect(lits, inner, ops)
			}
		}
		for _, v := range t.Vars {
			delete(inner, v.Op)
		}
		for k, v := range inner {
			syms[k] = v
		}
		return
	}
	if len(t.Args) == 0 {
		syms[t.Op] = t.Sort
		return
	}
	ops[t.Op] = true
	for _, a := range t.Args {
		a.Collect(lits, syms, ops)
	}
}

func sortedKeys[V any](m map[string]V) []string {
	ks := make([]string, 0, len(m))
	for k := range m {
		ks = append(ks, k)
	}
	sort.Strings(ks)
	return ks
}
