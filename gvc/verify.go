package gvc

import (
	"fmt"
	"go/ast"
	"go/types"
	"reflect"
	"runtime/debug"
	"strings"
)

// FuncResult is the outcome of generating obligations for one function.
type FuncResult struct {
	Key         string
	Obls        []*Obligation
	OutOfSubset string
	Notes       []string
	Paths       int
}

// VerifyFunc generates the obligations of the function with the given key.
func (w *World) VerifyFunc(key string) (res *FuncResult) {
	if strings.HasPrefix(key, "stream.") && strings.Contains(key, "/refines#") {
		return w.verifyRefinement(key)
	}
	res = &FuncResult{Key: key}
	fi := w.Funcs[key]
	c := w.CS.ByKey[key]
	if fi == nil && c != nil && c.Kind == "closure" {
		fi = w.closureInfo(key)
	}
	inst := ""
	if i, j := strings.Index(key, "["), strings.Index(key, "]"); i >= 0 && j > i && fi != nil && fi.Lit != nil {
		// a closure inside an instance of a generic function
		inst = key[i+1 : j]
	}
	if i := strings.Index(key, "["); i >= 0 && strings.HasSuffix(key, "]") && fi == nil {
		// an instance of a generic function or of a method of a generic type: gtree.f[jsonNode]
		inst = key[i+1 : len(key)-1]
		if base := w.Funcs[key[:i]]; base != nil {
			cp := *base
			cp.Key = key
			fi = &cp
		}
	}
	if fi == nil {
		res.OutOfSubset = "unbound-contract: no function " + key + " in the loaded packages"
		return
	}
	if c == nil {
		res.OutOfSubset = "no contract for " + key
		return
	}
	if c.Implements != "" {
		if pc := w.CS.ByKey["protocol."+c.Implements]; pc != nil {
			if c.ImplInst != "" {
				pc = instantiateContract(pc, c.ImplInst, w.CS)
			}
			merged := *c
			merged.Requires = append(append([]*Clause{}, c.Requires...), pc.Requires...)
			merged.Ensures = append(append([]*Clause{}, c.Ensures...), pc.Ensures...)
			merged.Modifies = append(append([]*ModItem{}, c.Modifies...), pc.Modifies...)
			merged.HasMod = true
			if len(merged.Params) == 0 {
				merged.Params = pc.Params
			}
			merged.RetProto = pc.Yields
			c = &merged
		} else {
			res.OutOfSubset = "closure implements unknown protocol " + c.Implements
			return
		}
	}
	if len(c.Derived) > 0 {
		// the contract is proved to be a consequence of each of its source contracts (instances of the generic function):
		// a call of the source by contract stands for the body
		for _, sk := range c.Derived {
			sc := w.CS.ByKey[sk]
			if sc == nil || sc.Flags["assumed"] || len(sc.Derived) > 0 {
				res.OutOfSubset = "derived from " + sk + ": no verified contract of that name"
				return
			}
			base := sk
			sinst := ""
			if i := strings.Index(sk, "["); i >= 0 && strings.HasSuffix(sk, "]") {
				base, sinst = sk[:i], sk[i+1:len(sk)-1]
			}
			if base != key {
				res.OutOfSubset = "derived from " + sk + ": not an instance of " + key
				return
			}
			r1 := &FuncResult{Key: key}
			w.verifyUnit(&Exec{W: w, Fn: fi, C: c, inst: sinst, derived: sc}, r1)
			res.Obls = append(res.Obls, r1.Obls...)
			res.Notes = append(res.Notes, r1.Notes...)
			res.Paths += r1.Paths
			if r1.OutOfSubset != "" {
				res.OutOfSubset = r1.OutOfSubset
				return
			}
		}
		return
	}
	w.verifyUnit(&Exec{W: w, Fn: fi, C: c, inst: inst}, res)
	return
}

func (w *World) verifyUnit(x *Exec, res *FuncResult) {
	defer func() {
		if r := recover(); r != nil {
			switch e := r.(type) {
			case outOfSubset:
				res.OutOfSubset = e.msg
			case ctransErr:
				res.OutOfSubset = "contract error: " + e.msg
			default:
				res.OutOfSubset = fmt.Sprintf("internal error: %v\n%s", r, debug.Stack())
			}
			res.Obls = x.Obls
		}
	}()
	x.run(res)
	res.Obls = x.Obls
	res.Notes = x.Notes
	return
}

func (x *Exec) run(res *FuncResult) {
	fi, c := x.Fn, x.C
	sig := fi.Obj.Type().(*types.Signature)
	st := &St{vars: map[types.Object]*Val{}, heap: map[string]*Term{}, defers: map[int][]deferred{}}
	fr := &Frame{id: x.newFrameID(), fi: fi, info: fi.Pkg.TypesInfo}
	if x.inst != "" {
		ity, ok := x.W.parseTypeText(x.inst, fi.Pkg)
		if !ok {
			oos("unknown instance type %s", x.inst)
		}
		if _, isStruct := ity.Underlying().(*types.Struct); isStruct {
			ity = types.NewPointer(ity)
		}
		fr.tsubst = map[*types.TypeParam]types.Type{}
		tps := sig.TypeParams()
		if tps.Len() == 0 {
			tps = sig.RecvTypeParams()
		}
		for i := 0; i < tps.Len(); i++ {
			fr.tsubst[tps.At(i)] = ity
		}
	}
	names := map[string]*Val{}
	// receiver
	if fi.Decl.Recv != nil && len(fi.Decl.Recv.List) > 0 {
		rf := fi.Decl.Recv.List[0]
		if len(rf.Names) > 0 && rf.Names[0].Name != "_" {
			ro := fr.info.Defs[rf.Names[0]].(*types.Var)
			v := x.freshVal(st, ro.Name(), ro.Type())
			x.paramFacts(st, v)
			st.vars[ro] = v
			names[ro.Name()] = v
		}
	}
	// type parameters: verified once per instantiation requested via the contract key suffix is not supported yet
	var args []*Val
	for _, fld := range fi.Decl.Type.Params.List {
		if len(fld.Names) == 0 {
			args = append(args, &Val{})
			continue
		}
		for _, nm := range fld.Names {
			o, _ := fr.info.Defs[nm].(*types.Var)
			if o == nil {
				args = append(args, &Val{})
				continue
			}
			v := x.freshVal(st, o.Name(), fr.subst(o.Type()))
			x.paramFacts(st, v)
			if p, ok := c.ParamProto[nm.Name]; ok {
				v.Proto = x.W.protoOf(p)
				x.paramSubjects(st, c, nm.Name, v, names)
			}
			args = append(args, v)
			if nm.Name != "_" {
				names[nm.Name] = v
			}
		}
	}
	x.bindParams(fr, fi.Decl.Type, sig, args, st)
	ftype, body0 := fi.Decl.Type, fi.Decl.Body
	if fi.Lit != nil {
		// a closure: the enclosing function's parameters were bound above; now the captured locals and the literal's own parameters
		parentC := x.W.CS.ByKey[fi.Key[:strings.LastIndex(fi.Key, "#")]]
		if parentC != nil {
			for _, nm := range sortedKeys(parentC.ParamProto) {
				if v := names[nm]; v != nil {
					v.Proto = x.W.protoOf(parentC.ParamProto[nm])
					if _, own := c.ParamSubj[nm]; !own {
						x.paramSubjects(st, parentC, nm, v, names)
					}
				}
			}
		}
		for _, v := range capturedVars(fi.Lit, fr.info) {
			if _, bound := st.vars[v]; bound {
				continue
			}
			val := x.freshVal(st, v.Name(), v.Type())
			x.paramFacts(st, val)
			st.vars[v] = val
			names[v.Name()] = val
		}
		// the closure's own contract may declare the protocol of a captured variable
		for _, nm := range sortedKeys(c.ParamProto) {
			if v := names[nm]; v != nil {
				v.Proto = x.W.protoOf(c.ParamProto[nm])
				x.paramSubjects(st, c, nm, v, names)
			}
		}
		lsig := fr.info.TypeOf(fi.Lit).(*types.Signature)
		var largs []*Val
		for _, fld := range fi.Lit.Type.Params.List {
			for _, nm := range fld.Names {
				o, _ := fr.info.Defs[nm].(*types.Var)
				if o == nil {
					largs = append(largs, &Val{})
					continue
				}
				v := x.freshVal(st, o.Name(), o.Type())
				x.paramFacts(st, v)
				if p, ok := c.ParamProto[nm.Name]; ok {
					v.Proto = x.W.protoOf(p)
				} else if c.Yields != "" {
					if _, isFn := o.Type().Underlying().(*types.Signature); isFn {
						v.Proto = "yield." + c.Yields
					}
				}
				largs = append(largs, v)
				names[nm.Name] = v
			}
		}
		x.bindParams(fr, fi.Lit.Type, lsig, largs, st)
		ftype, body0, sig = fi.Lit.Type, fi.Lit.Body, lsig
	}
	// frame from the modifies clause
	x.frameAll = map[string]bool{}
	x.frameLocs = map[string][]*Term{}
	x.entry = st
	x.entryNames = names
	env := &CEnv{X: x, Names: names, St: st, Pkg: fi.Pkg}
	x.wrapCfail("modifies of "+c.Key, func() {
		for _, t := range x.modTargets(c, env) {
			if t.loc == nil {
				x.frameAll[t.key] = true
			} else {
				x.frameLocs[t.key] = append(x.frameLocs[t.key], t.loc)
			}
		}
	})
	x.heapTypingAll(st)
	x.assumeWF(st)
	x.wrapCfail("channel subjects of "+c.Key, func() { x.bindCarriedSubjects(st, names) })
	if fi.Lit != nil && (len(c.Defines) > 0 || c.Implements != "") {
		// the closure under verification as a value
		self := &Val{T: x.fresh("self", SRef), Ty: fr.info.TypeOf(fi.Lit)}
		x.assume(st, Neq(self.T, Null))
		names["self"] = self
		x.wrapCfail("defines of "+c.Key, func() {
			for _, d := range c.Defines {
				x.assume(st, env.HypFormula(d.Expr))
			}
		})
	}
	x.wrapCfail("precondition of "+c.Key, func() {
		for _, r := range c.Requires {
			x.assume(st, env.HypFormula(r.Expr))
		}
		for _, r := range c.Relies {
			x.assume(st, env.HypFormula(r.Expr))
		}
	})
	x.prodSubj = nil
	if fi.Lit != nil && c.Yields != "" {
		if sc := x.W.CS.ByKey["stream."+c.Yields]; sc != nil {
			// a producer starts: the recorded ghost variables have their initial values; its subjects are fixed now
			x.resetRecords(st, sc, false, 0)
			x.wrapCfail("subjects of "+c.Key, func() {
				for _, e := range c.YieldsArgs {
					x.prodSubj = append(x.prodSubj, env.tr(e))
				}
			})
		}
	}
	for _, u := range c.Uses {
		x.useLemma(st, u)
	}
	if c.Decreases != nil {
		x.wrapCfail("decreases of "+c.Key, func() { x.measure0 = x.measureOf(c, env) })
	}
	// cover: the precondition (with the global invariant) must be satisfiable
	x.Obls = append(x.Obls, &Obligation{Name: fi.Key + "/cover#pre", Func: fi.Key, Kind: "cover", Label: "pre", Canary: true,
		Hyps: append([]*Term(nil), st.pc...), Goal: False, Clause: "precondition and global invariant are satisfiable"})
	x.entry = st.clone()
	entrySt := x.entry
	_ = entrySt
	body := st.clone()
	paths := 0
	if x.derived != nil {
		fake := &ast.CallExpr{Fun: &ast.Ident{NamePos: fi.Decl.Pos(), Name: fi.Obj.Name()}, Lparen: fi.Decl.Pos(), Rparen: fi.Decl.Pos()}
		var recv *Val
		if fi.Decl.Recv != nil && len(fi.Decl.Recv.List) > 0 && len(fi.Decl.Recv.List[0].Names) > 0 {
			recv = names[fi.Decl.Recv.List[0].Names[0].Name]
		}
		// channel parameters carry what the derived contract declares for them
		ai := 0
		for _, fld := range fi.Decl.Type.Params.List {
			if len(fld.Names) == 0 {
				ai++
				continue
			}
			for _, nm := range fld.Names {
				if ai < len(args) && nm.Name != "_" {
					args[ai] = x.chanDecorate(args[ai], nm.Name, body, fr)
				}
				ai++
			}
		}
		x.callContract(fake, x.derived, fi.Obj, fi, recv, args, body, fr, func(s *St, v *Val) {
			paths++
			x.checkPost(s, fr, v, names)
		})
		res.Paths = paths
		return
	}
	x.runBody(fr, ftype, sig, body0, body, func(s *St, v *Val) {
		paths++
		x.checkPost(s, fr, v, names)
	})
	res.Paths = paths
}

// paramSubjects: "param X follows S(a, b)": the subjects of the stream value X are unknown but fixed; they get the
// names a, b (typed as the stream's subject declaration says).
func (x *Exec) paramSubjects(st *St, c *Contract, pname string, v *Val, names map[string]*Val) {
	sn := c.ParamSubj[pname]
	if len(sn) == 0 {
		return
	}
	sc := x.W.CS.ByKey[x.W.protoOf(c.ParamProto[pname])]
	v.Subj = nil
	for i, nm := range sn {
		sv := x.freshSubject(st, sc, i, nm)
		v.Subj = append(v.Subj, sv)
		names[nm] = sv
	}
}

// nullSubject: the nil subject (position i) of stream sc.
func (x *Exec) nullSubject(sc *Contract, i int) *Val {
	var ty types.Type = types.Universe.Lookup("any").Type()
	if sc != nil && i < len(sc.SubjTypes) && sc.SubjTypes[i] != "" {
		if t, ok := x.W.parseTypeText(sc.SubjTypes[i], x.W.mainPkg()); ok {
			ty = t
		}
	}
	return &Val{T: Null, Ty: ty}
}

// freshSubject: an unknown subject value of stream sc (position i).
func (x *Exec) freshSubject(st *St, sc *Contract, i int, nm string) *Val {
	var ty types.Type = types.Universe.Lookup("any").Type()
	if sc != nil && i < len(sc.SubjTypes) && sc.SubjTypes[i] != "" {
		t, ok := x.W.parseTypeText(sc.SubjTypes[i], x.W.mainPkg())
		if !ok {
			cfail("stream %s: unknown subject type %s", sc.Key, sc.SubjTypes[i])
		}
		ty = t
	}
	sv := x.freshVal(st, nm, ty)
	x.paramFacts(st, sv)
	return sv
}

func (x *Exec) paramFacts(st *St, v *Val) {
	if v.T != nil && v.T.Sort == SRef {
		x.assume(st, Or(Eq(v.T, Null), Select(st.alloc(), v.T)))
	}
}

func (x *Exec) checkPost(st *St, fr *Frame, v *Val, names map[string]*Val) {
	c := x.C
	fi := x.Fn
	sig := fi.Obj.Type().(*types.Signature)
	if fi.Lit != nil {
		sig = fr.info.TypeOf(fi.Lit).(*types.Signature)
	}
	if c.Yields != "" && fi.Lit == nil {
		want := x.W.protoOf(c.Yields)
		got := ""
		if v != nil {
			got = v.Proto
		}
		if !x.W.protoCompatible(got, want) {
			x.emit(st, oblTemplate{kind: "proto", label: "yields", clause: "the returned iterator obeys stream " + c.Yields + " (got " + got + ")"}, nil, False)
		}
		if len(c.YieldsArgs) > 0 {
			// the returned iterator was created for the subjects the contract promises
			senv := &CEnv{X: x, Names: names, St: st, Pkg: fi.Pkg}
			x.wrapCfail("subjects of "+c.Key, func() {
				for i, e := range c.YieldsArgs {
					goal := False
					if got != want && x.W.protoCompatible(got, want) {
						// a value of a refining stream is returned: in the promised view its subjects are nil
						goal = Eq(senv.tr(e).T, Null)
					} else if v != nil && i < len(v.Subj) && v.Subj[i] != nil && v.Subj[i].T != nil {
						goal = Eq(senv.tr(e).T, v.Subj[i].T)
					}
					x.emit(st, oblTemplate{kind: "proto", label: fmt.Sprintf("subject%d", i), clause: "the returned iterator's subject is " + e.String()}, nil, goal)
				}
			})
		}
	}
	post := map[string]*Val{}
	for k, val := range names {
		post[k] = val
	}
	var rvals []*Val
	switch {
	case v.Tuple != nil:
		rvals = v.Tuple
	case sig.Results().Len() == 1:
		rvals = []*Val{v}
	}
	for i, rv := range rvals {
		post[fmt.Sprintf("result%d", i)] = rv
		if i == 0 {
			post["result"] = rv
		}
	}
	if fi.Decl.Type.Results != nil && fi.Lit == nil {
		j := 0
		for _, fld := range fi.Decl.Type.Results.List {
			for _, nm := range fld.Names {
				if j < len(rvals) {
					post[nm.Name] = rvals[j]
				}
				j++
			}
			if len(fld.Names) == 0 {
				j++
			}
		}
	}
	// locals of the function at this return point are visible (for witness hints only)
	for o, val := range st.vars {
		if vo, ok := o.(*types.Var); ok && val != nil {
			if _, taken := post[vo.Name()]; !taken {
				post[vo.Name()] = val
			}
		}
	}
	oldEnv := &CEnv{X: x, Names: names, St: x.entry, Pkg: fi.Pkg}
	env := &CEnv{X: x, Names: post, St: st, Pkg: fi.Pkg, Old: oldEnv}
	if len(c.Carries) > 0 && fi.Lit == nil {
		x.checkCarriedResults(st, c, rvals, env)
	}
	x.applyGhostSets(st, c, env)
	x.wrapCfail("postcondition of "+c.Key, func() {
		for _, e := range c.Ensures {
			x.emit(st, oblTemplate{kind: "post", label: e.Label, clause: e.Text, props: e.Props, pos: e.Pos}, nil, env.Formula(e.Expr))
		}
		for _, e := range c.Relies {
			x.emit(st, oblTemplate{kind: "rely", label: e.Label, clause: e.Text, props: e.Props, pos: e.Pos}, nil, env.Formula(e.Expr))
		}
	})
	if c.RetProto != "" {
		want := x.W.protoOf(c.RetProto)
		got := ""
		if v != nil {
			got = v.Proto
		}
		if !x.W.protoCompatible(got, want) {
			x.emit(st, oblTemplate{kind: "proto", label: "returns", clause: "the returned function value obeys protocol " + c.RetProto + " (it is: " + got + ")"}, nil, False)
		}
	}
	if sc := x.W.CS.ByKey["stream."+c.Yields]; fi.Lit != nil && c.Yields != "" && sc != nil && (!st.yielded || len(sc.Records) > 0) {
		// the producer finishes without having yielded anything (recording streams: at every exit): the stream's
		// finish condition must hold
		{
			bindSubjects(sc, x.prodSubj, post)
			x.wrapCfail("finish condition of stream "+c.Yields, func() {
				for _, e := range sc.Ensures {
					x.emit(st, oblTemplate{kind: "finish", label: e.Label, clause: e.Text, props: e.Props, pos: e.Pos,
						name: fi.Key + "/finish#" + c.Yields + "/" + e.Label}, nil, env.Formula(e.Expr))
				}
			})
		}
	}
	// a WaitGroup made here on which goroutines were started has been waited for before this body returns (otherwise
	// the body's deferred close of the stage's channels runs while workers may still send on them)
	if sp, wt := x.W.Fields["sync.WaitGroup.spawned"], x.W.Fields["sync.WaitGroup.waited"]; sp != nil && wt != nil {
		for _, r := range st.wgs {
			x.emit(st, oblTemplate{kind: "exit", label: "waited", props: []string{"C12"}, pos: "",
				clause: "a WaitGroup made in this body on which goroutines were started has been waited for on this return path",
				name:   fi.Key + "/exit#waited"}, nil, Implies(Cmp(">", Select(st.field(sp), r), IntLit(0)), Select(st.field(wt), r)))
		}
	}
	x.assertWF(st, "exit", "")
	if x.ncanary < 64 {
		x.ncanary++
		x.Obls = append(x.Obls, &Obligation{Name: fi.Key + "/canary#exit", Func: fi.Key, Kind: "canary", Label: "exit", Canary: true,
			Hyps: append([]*Term(nil), st.pc...), Goal: False, Clause: "hypotheses at the first exit are consistent", Trace: st.trace})
	}
}

// useLemma imports a proved lemma as a quantified fact.
func (x *Exec) useLemma(st *St, name string) {
	w := x.W
	key := name
	if _, ok := w.CS.ByKey[key]; !ok {
		key = x.Fn.Pkg.Name + "." + name
	}
	lc := w.CS.ByKey[key]
	lf := w.Funcs[key]
	if lc == nil || lf == nil {
		cfail("unknown lemma %s", name)
	}
	ax := w.lemmaAxiom(x, lc, lf)
	x.lemmaAxioms = append(x.lemmaAxioms, ax)
	st.pc = append(st.pc, ax)
}

// lemmaAxiom turns a lemma contract into forall heap, params :: requires ==> ensures.
func (w *World) lemmaAxiom(x *Exec, lc *Contract, lf *FuncInfo) *Term {
	sig := lf.Obj.Type().(*types.Signature)
	names := map[string]*Val{}
	var vars []*Term
	var guards []*Term
	sub := &Exec{W: w, Fn: lf, pure: true, heapVars: map[string]*Term{}, ids: x.ids + 100000}
	reads := map[string]bool{}
	// discover the heap components read: translate once with default heap
	probe := &Exec{W: w, Fn: lf, ids: x.ids + 200000}
	pnames := map[string]*Val{}
	pst := &St{vars: map[types.Object]*Val{}, heap: map[string]*Term{}, defers: map[int][]deferred{}}
	for i := 0; i < sig.Params().Len(); i++ {
		p := sig.Params().At(i)
		var vs, gs []*Term
		pnames[p.Name()] = probe.paramVal(p.Name()+"$l", p.Type(), &vs, &gs)
	}
	penv := &CEnv{X: probe, Names: pnames, St: pst, Pkg: lf.Pkg, Reads: reads}
	for _, r := range lc.Requires {
		penv.Formula(r.Expr)
	}
	for _, e := range lc.Ensures {
		penv.Formula(e.Expr)
	}
	for _, r := range sortedKeys(reads) {
		v := Var("h$"+r, w.keySort(r))
		sub.heapVars[r] = v
		vars = append(vars, v)
	}
	for i := 0; i < sig.Params().Len(); i++ {
		p := sig.Params().At(i)
		names[p.Name()] = sub.paramVal(p.Name()+"$l", p.Type(), &vars, &guards)
	}
	hst := &St{vars: map[types.Object]*Val{}, heap: map[string]*Term{}, defers: map[int][]deferred{}}
	for r, v := range sub.heapVars {
		hst.heap[r] = v
	}
	sub.heapVars = nil
	fuelVar := Var("fu$l", SFuel)
	env := &CEnv{X: sub, Names: names, St: hst, Pkg: lf.Pkg, Fuel: fuelVar}
	var pre, post []*Term
	for _, r := range lc.Requires {
		pre = append(pre, env.Formula(r.Expr))
	}
	for _, e := range lc.Ensures {
		post = append(post, env.Formula(e.Expr))
	}
	var pats [][]*Term
	for _, tg := range lc.Triggers {
		var p []*Term
		for _, te := range tg {
			p = append(p, env.tr(te).T)
		}
		pats = append(pats, p)
	}
	if !(lc.Flags["nowf"] || lc.Flags["pure"]) && len(w.CS.GlobalInvs) > 0 {
		// the lemma was proved under the global invariant: its axiom is conditional on $WF of the same heap;
		// heap components the lemma itself does not read are universally quantified as well
		wfx := &Exec{W: w, Fn: lf}
		for _, k := range sortedKeys(w.wfFields(wfx)) {
			if _, ok := hst.heap[k]; !ok {
				v := Var("h$"+k, w.keySort(k))
				hst.heap[k] = v
				vars = append(vars, v)
			}
		}
		atom := wfx.wfAtom(hst)
		pre = append([]*Term{atom}, pre...)
		// the $WF atom joins every trigger so that all heap components are bound by matching
		for i := range pats {
			pats[i] = append(pats[i], atom)
		}
	}
	x.ids = sub.ids
	body := Implies(And(append(guards, pre...)...), And(post...))
	fuelInPat := false
	for _, p := range pats {
		for _, pt := range p {
			syms := map[string]Sort{}
			pt.Collect(map[string]bool{}, syms, map[string]bool{})
			if _, ok := syms[fuelVar.Op]; ok {
				fuelInPat = true
			}
		}
	}
	if fuelInPat {
		vars = append(vars, fuelVar)
	} else {
		body = body.Subst(map[string]*Term{fuelVar.Op: baseFuel})
	}
	for _, p := range pats {
		syms := map[string]Sort{}
		for _, pt := range p {
			pt.Collect(map[string]bool{}, syms, map[string]bool{})
		}
		for _, v := range vars {
			if _, ok := syms[v.Op]; !ok {
				cfail("lemma %s: trigger does not mention %s (every quantified variable, including the heap components the lemma reads, must occur in each trigger)", lc.Key, v.Op)
			}
		}
	}
	if len(pats) == 0 {
		cfail("lemma %s has no trigger", lc.Key)
	}
	return Forall(vars, pats, body, "lemma."+lc.Key)
}

// TagObligations decides the struct-tag declarations syntactically (no solver involved).
func (w *World) TagObligations(prop string) []*Obligation {
	var out []*Obligation
	for _, td := range w.CS.Tags {
		has := false
		for _, p := range td.Props {
			if p == prop {
				has = true
			}
		}
		if !has {
			continue
		}
		ok := false
		if ty, found := w.parseTypeText(td.Type, w.mainPkg()); found {
			if st, isStruct := ty.Underlying().(*types.Struct); isStruct {
				for i := 0; i < st.NumFields(); i++ {
					if st.Field(i).Name() == td.Field {
						if v, has := reflectTag(st.Tag(i), td.Key); has && v == td.Value {
							ok = true
						}
					}
				}
			}
		}
		o := &Obligation{Name: "gtree." + td.Type + "/tag#" + td.Field + "." + td.Key, Func: "gtree." + td.Type, Kind: "tag", Label: td.Field, Props: td.Props,
			Pos: td.Pos, Clause: fmt.Sprintf("field %s.%s carries the struct tag %s:%q", td.Type, td.Field, td.Key, td.Value), Goal: True, Solver: "syntactic"}
		if ok {
			o.Result = "unsat"
		} else {
			o.Goal = False
			o.Result = "sat"
		}
		out = append(out, o)
	}
	return out
}

func reflectTag(tag, key string) (string, bool) {
	return reflect.StructTag(tag).Lookup(key)
}

// FuncKeysWithContracts lists the function contracts (not loops) bound to repository functions.
func (w *World) ContractedFuncs() []string {
	out := w.RefinementUnits()
	for _, c := range w.CS.Order {
		if c.Kind == "closure" {
			if fi := w.closureInfo(c.Key); fi != nil && !c.Flags["assumed"] {
				out = append(out, c.Key)
			}
			continue
		}
		if c.Kind == "func" {
			if i := strings.Index(c.Key, "["); i >= 0 && !c.Flags["assumed"] {
				if _, ok := w.Funcs[c.Key[:i]]; ok {
					out = append(out, c.Key)
				}
				continue
			}
		}
		if c.Kind == "func" || c.Kind == "lemma" || c.Kind == "spec" {
			if fi, ok := w.Funcs[c.Key]; ok && fi.Decl != nil {
				if c.Flags["helper"] && !c.Flags["verify"] && len(c.Ensures) == 0 {
					continue
				}
				if c.Flags["assumed"] || c.Flags["opaque"] {
					continue
				}
				out = append(out, c.Key)
			}
		}
	}
	return out
}

var _ = ast.Inspect
