package gvc

import (
	"context"
	"crypto/sha256"
	"fmt"
	"os"
	"os/exec"
	"path/filepath"
	"regexp"
	"strings"
	"sync"
	"time"
)

// Obligation is one verification condition: Hyps |- Goal.
type Obligation struct {
	Name   string   // stable name, e.g. gtree.stack.dfs/post#attached
	Func   string   // function key
	Kind   string   // post | pre | inv-init | inv-keep | safety | decreases | frame | wf | lemma | canary | cover | proto
	Label  string   // clause label
	Props  []string // property tags
	Pos    string   // source position of the program point
	Clause string   // clause text
	Hyps   []*Term
	Goal   *Term
	Trace  []string
	// Canary obligations are expected NOT to be provable.
	Canary bool

	// results
	Result  string // unsat | sat | unknown | timeout | error
	Solver  string
	Seconds float64
	Outputs map[string]string
	Script  string
}

// FunSig is the signature of an uninterpreted function.
type FunSig struct {
	Name string
	Args []Sort
	Res  Sort
}

// Axiom is a background axiom, included when one of its Defines symbols is used.
type Axiom struct {
	Name    string
	Defines []string // operator names; empty = always included
	Body    *Term
}

// Background holds what every script may need.
type Background struct {
	Funs     map[string]FunSig
	Axioms   []*Axiom
	Types    []string        // Type constants (pairwise distinct)
	Consts   map[string]Sort // always-declared constants (sentinels etc.)
	Distinct [][]string      // groups of pairwise-distinct Ref constants
}

func NewBackground() *Background {
	return &Background{Funs: map[string]FunSig{}, Consts: map[string]Sort{}}
}

var qidRe = regexp.MustCompile(` :qid (\|[^|]*\||[^ ()]+)`)

var preludeOps = func() map[string]bool {
	m := map[string]bool{}
	for _, o := range []string{"and", "or", "not", "=>", "=", "ite", "+", "-", "*", "div", "mod", "<", "<=", ">", ">=", "select", "store", "distinct", "typeOf", "emptyset.Str", "SF", "predF", "true", "false", "null", "ZF"} {
		m[o] = true
	}
	for _, s := range []string{"H.Int", "H.Bool", "H.Ref", "H.Str", "H.SeqRef", "H.SeqStr", "Set.Str", "H.Set.Str"} {
		m["sel."+s] = true
		m["upd."+s] = true
		m["add."+s] = true
		m["del."+s] = true
	}
	for _, s := range []string{"Str", "SeqRef", "SeqStr"} {
		for _, f := range []string{"len", "at", "empty", "unit", "cat", "take", "drop", "eq", "contains", "idx"} {
			m[f+"."+s] = true
		}
	}
	return m
}()

func isNumeral(s string) bool {
	if s == "" {
		return false
	}
	for _, c := range s {
		if c < '0' || c > '9' {
			return false
		}
	}
	return true
}

// BuildScript renders the SMT-LIB script for an obligation.
func (bg *Background) BuildScript(o *Obligation, cvc5 bool) string {
	lits := map[string]bool{}
	syms := map[string]Sort{}
	ops := map[string]bool{}
	for _, h := range o.Hyps {
		h.Collect(lits, syms, ops)
	}
	o.Goal.Collect(lits, syms, ops)
	// axiom closure
	var used []*Axiom
	included := map[*Axiom]bool{}
	for changed := true; changed; {
		changed = false
		for _, ax := range bg.Axioms {
			if included[ax] {
				continue
			}
			inc := len(ax.Defines) == 0
			for _, d := range ax.Defines {
				if ops[d] || syms[d] != "" {
					inc = true
				}
			}
			if inc {
				included[ax] = true
				used = append(used, ax)
				ax.Body.Collect(lits, syms, ops)
				changed = true
			}
		}
	}
	var sb strings.Builder
	sb.WriteString(fullPrelude(cvc5))
	for _, t := range bg.Types {
		fmt.Fprintf(&sb, "(declare-fun %s () Type)\n", smtSym(t))
	}
	if len(bg.Types) > 1 {
		sb.WriteString("(assert (distinct")
		for _, t := range bg.Types {
			sb.WriteString(" " + smtSym(t))
		}
		sb.WriteString("))\n")
	}
	declared := map[string]bool{}
	for _, k := range sortedKeys(bg.Consts) {
		fmt.Fprintf(&sb, "(declare-fun %s () %s)\n", smtSym(k), bg.Consts[k])
		declared[k] = true
	}
	for _, g := range bg.Distinct {
		if len(g) > 1 {
			sb.WriteString("(assert (distinct")
			for _, c := range g {
				sb.WriteString(" " + smtSym(c))
			}
			sb.WriteString("))\n")
		}
	}
	for _, t := range bg.Types {
		declared[t] = true
	}
	for _, k := range sortedKeys(ops) {
		if preludeOps[k] {
			continue
		}
		sig, ok := bg.Funs[k]
		if !ok {
			fmt.Fprintf(&sb, "; WARNING: undeclared operator %s\n", k)
			continue
		}
		fmt.Fprintf(&sb, "(declare-fun %s (", smtSym(k))
		for i, a := range sig.Args {
			if i > 0 {
				sb.WriteString(" ")
			}
			sb.WriteString(string(a))
		}
		fmt.Fprintf(&sb, ") %s)\n", sig.Res)
	}
	for _, k := range sortedKeys(syms) {
		if preludeOps[k] || declared[k] || isNumeral(k) {
			continue
		}
		if sig, ok := bg.Funs[k]; ok && len(sig.Args) == 0 {
			fmt.Fprintf(&sb, "(declare-fun %s () %s)\n", smtSym(k), sig.Res)
			continue
		}
		fmt.Fprintf(&sb, "(declare-fun %s () %s)\n", smtSym(k), syms[k])
	}
	for _, l := range sortedKeys(lits) {
		sb.WriteString(litAxioms(l))
	}
	pr := func(t *Term) string {
		if cvc5 {
			return t.StringNoQID()
		}
		return t.String()
	}
	for _, ax := range used {
		fmt.Fprintf(&sb, "; axiom %s\n(assert %s)\n", ax.Name, pr(ax.Body))
	}
	for _, h := range o.Hyps {
		fmt.Fprintf(&sb, "(assert %s)\n", pr(h))
	}
	fmt.Fprintf(&sb, "; goal %s\n(assert (not %s))\n(check-sat)\n", o.Name, pr(o.Goal))
	if cvc5 {
		return qidRe.ReplaceAllString(sb.String(), "")
	}
	return sb.String()
}

// SolverConfig controls the portfolio.
type SolverConfig struct {
	NoRetry    map[string]bool // obligation names that are not retried after a time-out (listed known findings)
	TimeoutSec int
	Jobs       int
	AllSolvers bool // thorough: run every back end on every obligation
	KeepDir    string
}

type solverSpec struct {
	name string
	cvc5 bool
	args func(file string, timeout int) []string
}

var solvers = []solverSpec{
	{"z3-5.1.0", false, func(f string, t int) []string { return []string{"z3-new", fmt.Sprintf("-T:%d", t), f} }},
	{"z3-4.8.12", false, func(f string, t int) []string { return []string{"/usr/bin/z3", fmt.Sprintf("-T:%d", t), f} }},
	{"cvc5-1.0", true, func(f string, t int) []string {
		return []string{"cvc5", fmt.Sprintf("--tlimit=%d", t*1000), f}
	}},
}

func runSolver(sp solverSpec, script string, dir string, id string, timeout int) (string, string, float64) {
	file := filepath.Join(dir, id+"."+sp.name+".smt2")
	if err := os.WriteFile(file, []byte(script), 0o644); err != nil {
		return "error", err.Error(), 0
	}
	argv := sp.args(file, timeout)
	ctx, cancel := context.WithTimeout(context.Background(), time.Duration(timeout+5)*time.Second)
	defer cancel()
	start := time.Now()
	out, err := exec.CommandContext(ctx, argv[0], argv[1:]...).CombinedOutput()
	el := time.Since(start).Seconds()
	text := strings.TrimSpace(string(out))
	first := ""
	for _, ln := range strings.Split(text, "\n") {
		ln = strings.TrimSpace(ln)
		if ln == "" || strings.HasPrefix(ln, "WARNING") || strings.HasPrefix(ln, "(warning") {
			continue
		}
		first = ln
		break
	}
	switch first {
	case "unsat", "sat", "unknown", "timeout":
		return first, text, el
	}
	if ctx.Err() != nil {
		return "timeout", text, el
	}
	if strings.Contains(text, "timeout") || strings.Contains(text, "interrupted") {
		return "timeout", text, el
	}
	_ = err
	return "error", text, el
}

// Discharge runs all obligations through the solver portfolio.
func (bg *Background) Discharge(obls []*Obligation, cfg SolverConfig) {
	if cfg.Jobs <= 0 {
		cfg.Jobs = 16
	}
	if cfg.TimeoutSec <= 0 {
		cfg.TimeoutSec = 10
	}
	dir := cfg.KeepDir
	if dir == "" {
		d, err := os.MkdirTemp("", "gvc-smt-")
		if err != nil {
			panic(err)
		}
		dir = d
		defer os.RemoveAll(d)
	} else {
		os.MkdirAll(dir, 0o755)
	}
	sem := make(chan struct{}, cfg.Jobs)
	var wg sync.WaitGroup
	for i, o := range obls {
		wg.Add(1)
		go func(i int, o *Obligation) {
			defer wg.Done()
			sem <- struct{}{}
			defer func() { <-sem }()
			bg.dischargeOne(o, cfg, dir, fmt.Sprintf("o%05d", i))
		}(i, o)
	}
	wg.Wait()
	bg.retryTimeouts(obls, cfg, dir)
}

// retryTimeouts gives obligations that ended in a solver time-out (not in a quick "unknown", which is the normal answer
// for a goal E-matching cannot prove) a second run on a quiet machine: one obligation at a time, the three solvers side
// by side, twice the budget. A loaded machine must not turn a proof into an alarm; a goal that is not provable
// stays unproved. At most 8 obligations are retried (more than that is a real breakage, not load).
func (bg *Background) retryTimeouts(obls []*Obligation, cfg SolverConfig, dir string) {
	var again []*Obligation
	for _, o := range obls {
		if o.Canary || o.Result == "unsat" || o.Result == "sat" || cfg.NoRetry[o.Name] || cfg.NoRetry[strings.TrimPrefix(o.Name, "tinywasm:")] {
			continue
		}
		timedOut := o.Result == "timeout"
		for _, out := range o.Outputs {
			if strings.Contains(out, "timeout") || strings.Contains(out, "interrupted") || strings.Contains(out, "canceled") {
				timedOut = true
			}
		}
		if timedOut {
			again = append(again, o)
		}
	}
	if len(again) == 0 || len(again) > 8 {
		return
	}
	for i, o := range again {
		type ans struct {
			res, name string
			el        float64
		}
		ch := make(chan ans, len(solvers))
		for _, sp := range solvers {
			go func(sp solverSpec) {
				script := o.Script
				if sp.cvc5 {
					script = bg.BuildScript(o, true)
				}
				res, _, el := runSolver(sp, script, dir, fmt.Sprintf("r%05d", i), 2*cfg.TimeoutSec)
				ch <- ans{res, sp.name, el}
			}(sp)
		}
		maxEl := 0.0
		for range solvers {
			a := <-ch
			if a.el > maxEl {
				maxEl = a.el
			}
			if a.res == "unsat" && o.Result != "unsat" {
				o.Result, o.Solver = "unsat", a.name+" (retry)"
			}
		}
		o.Seconds += maxEl
	}
}

func (bg *Background) dischargeOne(o *Obligation, cfg SolverConfig, dir, id string) {
	o.Outputs = map[string]string{}
	scriptZ3 := bg.BuildScript(o, false)
	o.Script = scriptZ3
	if o.Goal.Op == "true" {
		o.Result, o.Solver = "unsat", "trivial"
		return
	}
	total := 0.0
	try := func(sp solverSpec, timeout int) bool {
		script := scriptZ3
		if sp.cvc5 {
			script = bg.BuildScript(o, true)
		}
		res, out, el := runSolver(sp, script, dir, id, timeout)
		total += el
		o.Outputs[sp.name] = out
		if res == "unsat" {
			o.Result, o.Solver = "unsat", sp.name
			return true
		}
		if o.Result == "" || o.Result == "error" || (res == "sat") {
			o.Result = res
		}
		return false
	}
	if o.Canary {
		// a canary must not be provable: quick check with the primary solver only
		try(solvers[0], 3)
		o.Seconds = total
		return
	}
	if cfg.AllSolvers {
		for _, sp := range solvers {
			try(sp, cfg.TimeoutSec)
		}
		o.Seconds = total
		if o.Solver != "" {
			o.Result = "unsat"
		}
		return
	}
	// stage 1: newest z3 with a short budget, then the full budget on the others in turn
	first := cfg.TimeoutSec
	if first > 4 {
		first = 4
	}
	if try(solvers[0], first) {
		o.Seconds = total
		return
	}
	// stage 2: the other two solvers side by side (a goal that only one of them decides no longer waits for the other's time-out)
	{
		type ans struct {
			sp       solverSpec
			res, out string
			el       float64
		}
		ch := make(chan ans, 2)
		for _, sp := range []solverSpec{solvers[1], solvers[2]} {
			go func(sp solverSpec) {
				script := scriptZ3
				if sp.cvc5 {
					script = bg.BuildScript(o, true)
				}
				res, out, el := runSolver(sp, script, dir, id, cfg.TimeoutSec)
				ch <- ans{sp, res, out, el}
			}(sp)
		}
		maxEl := 0.0
		done := false
		for i := 0; i < 2; i++ {
			a := <-ch
			if a.el > maxEl {
				maxEl = a.el
			}
			o.Outputs[a.sp.name] = a.out
			if a.res == "unsat" && !done {
				o.Result, o.Solver = "unsat", a.sp.name
				done = true
			} else if !done && (o.Result == "" || o.Result == "error" || a.res == "sat") {
				o.Result = a.res
			}
		}
		total += maxEl
		if done {
			o.Seconds = total
			return
		}
	}
	if first < cfg.TimeoutSec {
		try(solvers[0], cfg.TimeoutSec)
	}
	o.Seconds = total
}

func scriptHash(s string) string {
	h := sha256.Sum256([]byte(s))
	return fmt.Sprintf("%x", h[:8])
}
