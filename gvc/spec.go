package gvc

import (
	"fmt"
	"go/ast"
	"go/types"
	"sort"
	"strings"

	"golang.org/x/tools/go/packages"
)

type packagesPackage = packages.Package

// SpecFn is a pure Go function from a contract file, available in contracts as a logical function.
type SpecFn struct {
	Name      string
	Fi        *FuncInfo
	Sym       string
	Reads     []string
	Recursive bool
	ResTy     types.Type
	ResSort   Sort
	calls     map[string]bool
	direct    map[string]bool
}

var baseFuel = mk("SF", SFuel, mk("SF", SFuel, mk("$fuel", SFuel)))

func (w *World) lookupSpec(name string, pkg *packages.Package) *SpecFn {
	if pkg != nil {
		if sf, ok := w.Specs[pkg.Name+"."+name]; ok {
			return sf
		}
	}
	for _, p := range w.Main {
		if sf, ok := w.Specs[p.Name+"."+name]; ok {
			return sf
		}
	}
	if sf, ok := w.Specs[name]; ok {
		return sf
	}
	return nil
}

// InitSpecs registers the spec functions and builds their definitional axioms.
func (w *World) InitSpecs() {
	var keys []string
	for k, fi := range w.Funcs {
		if !fi.IsSpec {
			continue
		}
		if c := w.CS.ByKey[k]; c != nil && c.Kind == "lemma" {
			continue
		}
		sig := fi.Obj.Type().(*types.Signature)
		if sig.Results().Len() != 1 || sig.Recv() != nil {
			continue
		}
		rs, ok := w.SortOf(sig.Results().At(0).Type())
		if !ok {
			continue
		}
		sf := &SpecFn{Name: k, Fi: fi, Sym: "spec." + k, ResTy: sig.Results().At(0).Type(), ResSort: rs, calls: map[string]bool{}, direct: map[string]bool{}}
		w.Specs[k] = sf
		keys = append(keys, k)
	}
	sort.Strings(keys)
	// direct reads and calls
	for _, k := range keys {
		sf := w.Specs[k]
		if c := w.CS.ByKey[k]; c != nil && c.Flags["opaque"] {
			continue
		}
		w.scanSpec(sf)
	}
	// transitive closure
	for changed := true; changed; {
		changed = false
		for _, k := range keys {
			sf := w.Specs[k]
			for c := range sf.calls {
				cs := w.Specs[c]
				for r := range cs.direct {
					if !sf.direct[r] {
						sf.direct[r] = true
						changed = true
					}
				}
				for c2 := range cs.calls {
					if !sf.calls[c2] {
						sf.calls[c2] = true
						changed = true
					}
				}
			}
		}
	}
	for _, k := range keys {
		sf := w.Specs[k]
		sf.Reads = sortedKeys(sf.direct)
		sf.Recursive = sf.calls[k]
	}
	// signatures
	for _, k := range keys {
		sf := w.Specs[k]
		x := &Exec{W: w, Fn: sf.Fi, pure: true}
		var args []Sort
		if sf.Recursive {
			args = append(args, SFuel)
		}
		for _, r := range sf.Reads {
			args = append(args, w.keySort(r))
		}
		sig := sf.Fi.Obj.Type().(*types.Signature)
		for i := 0; i < sig.Params().Len(); i++ {
			args = append(args, x.leafSorts(sig.Params().At(i).Type())...)
		}
		w.BG.Funs[sf.Sym] = FunSig{Name: sf.Sym, Args: args, Res: sf.ResSort}
	}
	for _, k := range keys {
		if c := w.CS.ByKey[k]; c != nil && c.Flags["opaque"] {
			continue // uninterpreted: constrained by axioms only (the Go body is used by replay harnesses)
		}
		w.defineSpec(w.Specs[k])
	}
	// trusted / declared axioms over logic functions
	for _, ax := range w.CS.Axioms {
		func() {
			defer func() {
				if r := recover(); r != nil {
					if ce, ok := r.(ctransErr); ok {
						w.Errors = append(w.Errors, fmt.Sprintf("axiom %s: %s", ax.Label, ce.msg))
						return
					}
					panic(r)
				}
			}()
			x := &Exec{W: w, pure: true, Fn: w.anyFunc()}
			env := &CEnv{X: x, Names: map[string]*Val{}, St: &St{heap: map[string]*Term{}}, Pkg: w.mainPkg()}
			body := env.Formula(ax.Expr)
			lits, syms, ops := map[string]bool{}, map[string]Sort{}, map[string]bool{}
			body.Collect(lits, syms, ops)
			var defs []string
			for o := range ops {
				if strings.HasPrefix(o, "logic.") {
					defs = append(defs, o)
				}
			}
			sort.Strings(defs)
			if len(defs) == 0 {
				w.Errors = append(w.Errors, "axiom "+ax.Label+" mentions no logic function")
				return
			}
			w.BG.Axioms = append(w.BG.Axioms, &Axiom{Name: "axiom " + ax.Label, Defines: defs, Body: body})
			w.TrustedAxioms = append(w.TrustedAxioms, ax.Label+": "+ax.Text)
		}()
	}
}

func (w *World) anyFunc() *FuncInfo {
	for _, k := range sortedKeys(w.Funcs) {
		return w.Funcs[k]
	}
	return nil
}

func (w *World) keySort(key string) Sort {
	if f, ok := w.Fields[key]; ok {
		return ArrSort(SRef, f.Sort)
	}
	for _, g := range w.GhostVars {
		if g.Key == key {
			return g.Sort
		}
	}
	if key == "$alloc" {
		return ArrSort(SRef, SBool)
	}
	panic("unknown heap key " + key)
}

func (x *Exec) leafSorts(ty types.Type) []Sort {
	if sty, ok := isStructVal(ty); ok {
		var out []Sort
		for i := 0; i < sty.NumFields(); i++ {
			if _, ok := x.supported(sty.Field(i).Type()); ok {
				out = append(out, x.leafSorts(sty.Field(i).Type())...)
			}
		}
		return out
	}
	s, ok := x.W.SortOf(ty)
	if !ok {
		cfail("unsupported parameter type %s in spec function", ty)
	}
	return []Sort{s}
}

// scanSpec records the fields a spec function reads directly and the spec functions it calls.
func (w *World) scanSpec(sf *SpecFn) {
	info := sf.Fi.Pkg.TypesInfo
	x := &Exec{W: w, Fn: sf.Fi, pure: true}
	ast.Inspect(sf.Fi.Decl.Body, func(n ast.Node) bool {
		switch e := n.(type) {
		case *ast.SelectorExpr:
			sel := info.Selections[e]
			if sel == nil || sel.Kind() != types.FieldVal {
				return true
			}
			if _, isStruct := isStructVal(info.TypeOf(e)); isStruct {
				return true // intermediate struct-valued field
			}
			path := e.Sel.Name
			base := ast.Unparen(e.X)
			for {
				bt := info.TypeOf(base)
				if _, isPtr := bt.Underlying().(*types.Pointer); isPtr {
					break
				}
				if _, isStruct := isStructVal(bt); !isStruct {
					return true
				}
				inner, ok := base.(*ast.SelectorExpr)
				if !ok {
					return true // a struct-valued local/parameter
				}
				path = inner.Sel.Name + "." + path
				base = ast.Unparen(inner.X)
			}
			func() {
				defer func() { recover() }()
				for _, t := range x.fieldKeysUnder(derefType(info.TypeOf(base)), path, nil) {
					sf.direct[t.key] = true
				}
			}()
		case *ast.CallExpr:
			var obj *types.Func
			switch f := ast.Unparen(e.Fun).(type) {
			case *ast.Ident:
				obj, _ = info.Uses[f].(*types.Func)
			case *ast.SelectorExpr:
				obj, _ = info.Uses[f.Sel].(*types.Func)
			}
			if obj != nil {
				if _, ok := w.Specs[KeyOfFunc(obj)]; ok {
					sf.calls[KeyOfFunc(obj)] = true
				}
			}
		}
		return true
	})
}

// applySpec builds the application term of a spec function in state st.
func (x *Exec) applySpec(sf *SpecFn, st *St, args []*Val, reads map[string]bool, fuel *Term) *Val {
	var ts []*Term
	if sf.Recursive {
		f := fuel
		if x.specFuel != nil && x.specSCC[sf.Name] {
			f = x.specFuel
		}
		if f == nil {
			f = baseFuel
			if c := x.W.CS.ByKey[sf.Name]; c != nil {
				for k := range c.Flags {
					if strings.HasPrefix(k, "fuel:") {
						n := 0
						fmt.Sscan(strings.TrimPrefix(k, "fuel:"), &n)
						for i := 2; i < n && i < 12; i++ {
							f = mk("SF", SFuel, f)
						}
					}
				}
			}
		}
		ts = append(ts, f)
	}
	for _, r := range sf.Reads {
		if reads != nil {
			reads[r] = true
		}
		ts = append(ts, x.heapKeyTerm(st, r))
	}
	sig := sf.Fi.Obj.Type().(*types.Signature)
	if len(args) != sig.Params().Len() {
		cfail("%s expects %d arguments", sf.Name, sig.Params().Len())
	}
	for i, a := range args {
		a = x.coerce(st, a, sig.Params().At(i).Type())
		ts = append(ts, x.leaves(st, a)...)
	}
	want := x.W.BG.Funs[sf.Sym].Args
	if len(ts) != len(want) {
		cfail("%s: argument shape mismatch", sf.Name)
	}
	for i := range ts {
		if ts[i].Sort != want[i] {
			cfail("%s: argument %d has sort %s, want %s", sf.Name, i, ts[i].Sort, want[i])
		}
	}
	return &Val{T: App(sf.Sym, sf.ResSort, ts...), Ty: sf.ResTy}
}

func (x *Exec) heapKeyTerm(st *St, key string) *Term {
	if x.heapVars != nil {
		if t, ok := x.heapVars[key]; ok {
			return t
		}
		cfail("spec function reads undeclared heap component %s", key)
	}
	if t, ok := st.heap[key]; ok {
		return t
	}
	return Var(key, x.W.keySort(key))
}

// defineSpec emits the definitional axiom(s) of a spec function.
func (w *World) defineSpec(sf *SpecFn) {
	defer func() {
		if r := recover(); r != nil {
			switch e := r.(type) {
			case outOfSubset:
				w.Errors = append(w.Errors, fmt.Sprintf("spec function %s: %s", sf.Name, e.msg))
			case ctransErr:
				w.Errors = append(w.Errors, fmt.Sprintf("spec function %s: %s", sf.Name, e.msg))
			default:
				panic(r)
			}
		}
	}()
	x := &Exec{W: w, Fn: sf.Fi, pure: true, heapVars: map[string]*Term{}, specSCC: map[string]bool{}}
	var vars []*Term
	var fu *Term
	if sf.Recursive {
		fu = Var("fu$", SFuel)
		vars = append(vars, fu)
		x.specFuel = fu
		for c := range sf.calls {
			if w.Specs[c].calls[sf.Name] {
				x.specSCC[c] = true
			}
		}
		x.specSCC[sf.Name] = true
	}
	for _, r := range sf.Reads {
		v := Var("h$"+r, w.keySort(r))
		x.heapVars[r] = v
		vars = append(vars, v)
	}
	st := &St{vars: map[types.Object]*Val{}, heap: map[string]*Term{}, defers: map[int][]deferred{}}
	fi := sf.Fi
	sig := fi.Obj.Type().(*types.Signature)
	fr := &Frame{id: x.newFrameID(), fi: fi, info: fi.Pkg.TypesInfo}
	var argVals []*Val
	var argTerms []*Term
	var guards []*Term
	for i := 0; i < sig.Params().Len(); i++ {
		p := sig.Params().At(i)
		v := x.paramVal(p.Name()+"$p", p.Type(), &vars, &guards)
		argVals = append(argVals, v)
		argTerms = append(argTerms, x.leaves(st, v)...)
	}
	x.bindParams(fr, fi.Decl.Type, sig, argVals, st)
	type path struct {
		pc  []*Term
		val *Term
	}
	var paths []path
	x.runBody(fr, fi.Decl.Type, sig, fi.Decl.Body, st, func(s *St, v *Val) {
		if v.T == nil {
			oos("spec function %s returns an unsupported value", sf.Name)
		}
		paths = append(paths, path{append([]*Term(nil), s.pc...), v.T})
	})
	if len(paths) == 0 {
		oos("spec function %s has no return path", sf.Name)
	}
	body := paths[len(paths)-1].val
	for i := len(paths) - 2; i >= 0; i-- {
		body = Ite(And(paths[i].pc...), paths[i].val, body)
	}
	var lhsArgs []*Term
	if sf.Recursive {
		lhsArgs = append(lhsArgs, mk("SF", SFuel, fu))
	}
	for _, r := range sf.Reads {
		lhsArgs = append(lhsArgs, x.heapVars[r])
	}
	lhsArgs = append(lhsArgs, argTerms...)
	lhs := App(sf.Sym, sf.ResSort, lhsArgs...)
	var def *Term
	if sf.ResSort == SBool {
		def = Iff(lhs, body)
	} else {
		def = Eq(lhs, body)
	}
	def = Implies(And(guards...), def)
	w.BG.Axioms = append(w.BG.Axioms, &Axiom{Name: "def " + sf.Name, Defines: []string{sf.Sym},
		Body: Forall(vars, [][]*Term{{lhs}}, def, "def."+sf.Name)})
	if sf.Recursive {
		low := append([]*Term{fu}, lhsArgs[1:]...)
		syn := Eq(lhs, App(sf.Sym, sf.ResSort, low...))
		if sf.ResSort == SBool {
			syn = Iff(lhs, App(sf.Sym, sf.ResSort, low...))
		}
		w.BG.Axioms = append(w.BG.Axioms, &Axiom{Name: "fuel " + sf.Name, Defines: []string{sf.Sym},
			Body: Forall(vars, [][]*Term{{lhs}}, syn, "fuel."+sf.Name)})
	}
}

// paramVal creates bound variables for a parameter (flattening struct values).
func (x *Exec) paramVal(name string, ty types.Type, vars *[]*Term, guards *[]*Term) *Val {
	if sty, ok := isStructVal(ty); ok {
		v := &Val{Ty: ty, Fields: map[string]*Val{}}
		for i := 0; i < sty.NumFields(); i++ {
			f := sty.Field(i)
			if _, ok := x.supported(f.Type()); ok {
				v.Fields[f.Name()] = x.paramVal(name+"."+f.Name(), f.Type(), vars, guards)
			}
		}
		return v
	}
	s, ok := x.W.SortOf(ty)
	if !ok {
		oos("unsupported parameter type %s", ty)
	}
	t := Var(name, s)
	*vars = append(*vars, t)
	if isUnsigned(ty) {
		*guards = append(*guards, Cmp(">=", t, IntLit(0)))
	}
	return &Val{T: t, Ty: ty}
}
