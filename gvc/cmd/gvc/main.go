package main

import (
	"flag"
	"fmt"
	"os"
	"sort"
	"strings"

	"gvc"
)

func checkMain(args []string) {
	fs := flag.NewFlagSet("check", flag.ExitOnError)
	prop := fs.String("prop", "", "property id")
	tier := fs.String("tier", "quick", "quick | thorough")
	repo := fs.String("repo", "/repo", "repository root")
	verif := fs.String("verif", "/verif", "verif directory")
	writeLock := fs.Bool("writelock", false, "rewrite the obligation baseline of this property")
	fs.Parse(args)
	seed := 0
	if s := os.Getenv("VERIF_SEED"); s != "" {
		fmt.Sscan(s, &seed)
	}
	os.Exit(gvc.RunCheck(gvc.CheckConfig{Property: *prop, Tier: *tier, Repo: *repo, VerifDir: *verif, Seed: seed, WriteLock: *writeLock}))
}

func main() {
	if len(os.Args) > 1 && os.Args[1] == "check" {
		checkMain(os.Args[2:])
		return
	}
	if len(os.Args) > 1 && os.Args[1] == "all" {
		fs := flag.NewFlagSet("all", flag.ExitOnError)
		repo := fs.String("repo", "/repo", "repository root")
		verif := fs.String("verif", "/verif", "verif directory")
		fs.Parse(os.Args[2:])
		os.Exit(gvc.RunAll(*repo, *verif))
	}
	if len(os.Args) > 2 && os.Args[1] == "replay" {
		repo := os.Getenv("VERIF_REPO")
		if repo == "" {
			repo = "/repo"
		}
		os.Exit(gvc.Replay(repo, "/verif", os.Args[2]))
	}
	repo := flag.String("repo", "/repo", "repository root")
	tags := flag.String("tags", "verif", "build tags")
	trusted := flag.String("trusted", "/verif/gvc/trusted", "directory of trusted specs")
	funcs := flag.String("funcs", "", "comma-separated function keys (default: all contracted)")
	timeout := flag.Int("timeout", 10, "per-obligation timeout (s)")
	keep := flag.String("keep", "", "keep SMT files in this directory")
	verbose := flag.Bool("v", false, "verbose")
	allSolvers := flag.Bool("all", false, "run every solver on every obligation")
	dump := flag.String("dump", "", "print the script of obligations whose name contains this")
	flag.Parse()
	w, err := gvc.Load(*repo, *tags, *trusted)
	if err != nil {
		fmt.Println("load error:", err)
		os.Exit(2)
	}
	pfx := ""
	if strings.Contains(*tags, "tinywasm") {
		pfx = "tinywasm:"
	}
	for _, n := range w.ApplyLocalsLock("/verif/locals.lock", pfx) {
		fmt.Println("NOTE:", n)
	}
	w.InitSpecs()
	for _, e := range w.Errors {
		fmt.Println("ERROR:", e)
	}
	keys := w.ContractedFuncs()
	if *funcs != "" {
		keys = strings.Split(*funcs, ",")
	}
	var all []*gvc.Obligation
	for _, k := range keys {
		r := w.VerifyFunc(k)
		if r.OutOfSubset != "" {
			fmt.Printf("OUT-OF-SUBSET %s: %s\n", k, r.OutOfSubset)
		}
		for _, n := range r.Notes {
			fmt.Printf("NOTE %s: %s\n", k, n)
		}
		fmt.Printf("%s: %d obligations, %d paths\n", k, len(r.Obls), r.Paths)
		all = append(all, r.Obls...)
	}
	w.BG.Discharge(all, gvc.SolverConfig{TimeoutSec: *timeout, Jobs: 16, KeepDir: *keep, AllSolvers: *allSolvers})
	sort.SliceStable(all, func(i, j int) bool { return all[i].Name < all[j].Name })
	if *verbose {
		for _, o := range all {
			fmt.Printf("%-8s %-10s %6.2fs %s  [%s]\n", o.Result, o.Solver, o.Seconds, o.Name, o.Pos)
		}
	}
	fails := gvc.Evaluate(all)
	for _, f := range fails {
		o := f.Obl
		fmt.Printf("FAIL %-8s %6.2fs %s  [%s] %s\n", f.Reason, o.Seconds, f.Name, o.Pos, o.Clause)
		g := o.Goal.String()
		if len(g) > 600 {
			g = g[:600] + "..."
		}
		fmt.Println("      goal:", g)
		if *allSolvers {
			for s, out := range o.Outputs {
				fmt.Printf("        %s: %s\n", s, strings.SplitN(out, "\n", 2)[0])
			}
		}
		if *verbose {
			for _, t := range o.Trace {
				fmt.Println("      |", t)
			}
		}
		if *dump != "" && strings.Contains(o.Name, *dump) {
			fmt.Println(o.Script)
		}
	}
	fmt.Printf("%d obligations, %d failures\n", len(all), len(fails))
	if len(fails) > 0 {
		os.Exit(1)
	}
}
