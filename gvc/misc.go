package gvc

import (
	"fmt"
	"go/ast"
	"go/types"
	"strings"
)

func (x *Exec) evalConversion(call *ast.CallExpr, to types.Type, st *St, fr *Frame, k kval) {
	if len(call.Args) != 1 {
		oos("conversion with %d arguments", len(call.Args))
	}
	x.eval(call.Args[0], st, fr, func(st *St, v *Val) {
		to = fr.subst(to)
		ts, ok := x.W.SortOf(to)
		if !ok || v.T == nil {
			if _, isStruct := isStructVal(to); isStruct && v.T == nil {
				c := *v
				c.Ty = to
				k(st, &c)
				return
			}
			oos("conversion to unsupported type %s at %s", to, x.W.pos(call.Pos()))
		}
		switch {
		case ts == v.T.Sort && ts == SInt:
			if isUnsigned(to) && !isUnsigned(v.Ty) {
				x.safety(st, fr, Cmp(">=", v.T, IntLit(0)), "uint-conversion", call.Lparen)
			}
			k(st, &Val{T: v.T, Ty: to})
		case ts == v.T.Sort:
			nv := x.coerce(st, v, to)
			k(st, &Val{T: nv.T, Ty: to})
		case v.T.Op == "null":
			k(st, x.coerce(st, v, to))
		default:
			oos("conversion from %s to %s at %s", v.T.Sort, ts, x.W.pos(call.Pos()))
		}
	})
}

func (x *Exec) evalBuiltin(call *ast.CallExpr, fun ast.Expr, st *St, fr *Frame, k kval) {
	id, _ := fun.(*ast.Ident)
	if id == nil {
		oos("unsupported builtin call at %s", x.W.pos(call.Pos()))
	}
	intTy := types.Typ[types.Int]
	switch id.Name {
	case "len":
		x.eval(call.Args[0], st, fr, func(st *St, v *Val) {
			if v.T == nil || !v.T.Sort.IsSeq() {
				oos("len of unsupported value at %s", x.W.pos(call.Pos()))
			}
			k(st, &Val{T: SeqLen(v.T), Ty: intTy})
		})
	case "append":
		x.evalArgs(call.Args, st, fr, func(st *St, vs []*Val) {
			s := vs[0]
			ty := fr.typeOf(call)
			s = x.coerce(st, s, ty)
			if s.T == nil || !s.T.Sort.IsSeq() {
				oos("append to unsupported value at %s", x.W.pos(call.Pos()))
			}
			acc := s.T
			if call.Ellipsis.IsValid() {
				acc = SeqCat(acc, x.coerce(st, vs[1], ty).T)
			} else {
				et := ty.Underlying().(*types.Slice).Elem()
				for _, e := range vs[1:] {
					acc = SeqPush(acc, x.coerce(st, e, et).T)
				}
			}
			k(st, &Val{T: acc, Ty: ty})
		})
	case "make":
		ty := fr.typeOf(call)
		switch ty.Underlying().(type) {
		case *types.Map:
			if _, ok := x.W.SortOf(ty); !ok {
				oos("make of unsupported map type %s", ty)
			}
			k(st, x.newMap(st, ty))
		case *types.Chan:
			r := x.allocRef(st, ty, "chan")
			x.assume(st, Not(Select(st.field(chanClosedField), r)))
			k(st, &Val{T: r, Ty: ty})
		case *types.Slice:
			// make([]T, n): n zero values
			sort, ok := x.W.SortOf(ty)
			if !ok || !sort.IsSeq() || len(call.Args) != 2 {
				oos("make of %s at %s", ty, x.W.pos(call.Pos()))
			}
			zt := x.zeroVal(ty.Underlying().(*types.Slice).Elem())
			if zt.T == nil {
				oos("make of %s at %s", ty, x.W.pos(call.Pos()))
			}
			x.eval(call.Args[1], st, fr, func(st *St, nv *Val) {
				x.safety(st, fr, Cmp(">=", nv.T, IntLit(0)), "make-negative-length", call.Lparen)
				ns := x.fresh("make", sort)
				j := Var("j$", SInt)
				x.assume(st, Eq(SeqLen(ns), nv.T))
				x.assume(st, Forall([]*Term{j}, [][]*Term{{SeqAt(ns, j)}}, Implies(And(Cmp("<=", IntLit(0), j), Cmp("<", j, nv.T)), Eq(SeqAt(ns, j), zt.T)), "seq_make"))
				k(st, &Val{T: ns, Ty: ty})
			})
		default:
			oos("make of %s at %s", ty, x.W.pos(call.Pos()))
		}
	case "close":
		// closing a channel twice, or sending on a closed one, panics. The discipline checked here: a channel is closed only by
		// the function that made it (or by one of its closures): never through a parameter, a field or a received value.
		owned := false
		if aid, ok := ast.Unparen(call.Args[0]).(*ast.Ident); ok && fr.fi != nil && x.Fn != nil && fr.fi.Decl == x.Fn.Decl {
			if vo, ok := fr.info.Uses[aid].(*types.Var); ok && x.Fn != nil && x.Fn.Decl != nil && x.Fn.Decl.Body != nil {
				owned = vo.Pos() >= x.Fn.Decl.Body.Pos() && vo.Pos() <= x.Fn.Decl.Body.End()
			}
		}
		x.eval(call.Args[0], st, fr, func(st *St, v *Val) {
			if !owned {
				x.safety(st, fr, False, "close-of-a-channel-not-made-here", call.Lparen)
			}
			if v.T != nil && v.T.Sort == SRef {
				old := st.field(chanClosedField)
				nw := x.fresh(chanClosedField.Key, old.Sort)
				x.assume(st, Eq(nw, Store(old, v.T, True)))
				st.heap[chanClosedField.Key] = nw
			}
			k(st, &Val{})
		})
	case "panic":
		x.safety(st, fr, False, "panic", call.Lparen)
	case "min", "max":
		x.evalArgs(call.Args, st, fr, func(st *St, vs []*Val) {
			acc := vs[0].T
			for _, v := range vs[1:] {
				if id.Name == "min" {
					acc = Ite(Cmp("<=", acc, v.T), acc, v.T)
				} else {
					acc = Ite(Cmp(">=", acc, v.T), acc, v.T)
				}
			}
			k(st, &Val{T: acc, Ty: fr.typeOf(call)})
		})
	default:
		oos("unsupported builtin %s at %s", id.Name, x.W.pos(call.Pos()))
	}
}

// ---------- global invariant ----------

func (x *Exec) wfEnv(st *St) *CEnv {
	return &CEnv{X: x, Names: map[string]*Val{}, St: st, Pkg: x.Fn.Pkg}
}

// wfFields returns the heap keys the global invariant reads (computed once).
func (w *World) wfFields(x *Exec) map[string]bool {
	if w.wfReads != nil {
		return w.wfReads
	}
	reads := map[string]bool{}
	env := &CEnv{X: x, Names: map[string]*Val{}, St: &St{heap: map[string]*Term{}}, Pkg: w.mainPkg(), Reads: reads}
	for _, inv := range w.CS.GlobalInvs {
		func() {
			defer func() {
				if r := recover(); r != nil {
					if ce, ok := r.(ctransErr); ok {
						w.Errors = append(w.Errors, "global invariant "+inv.Label+": "+ce.msg)
						return
					}
					panic(r)
				}
			}()
			env.Formula(inv.Expr)
		}()
	}
	w.wfReads = reads
	return reads
}

func (w *World) mainPkg() *packagesPackage {
	for _, p := range w.Main {
		if p.PkgPath == repoModule {
			return p
		}
	}
	return w.Main[0]
}

func (x *Exec) usesWF() bool {
	if x.pure || len(x.W.CS.GlobalInvs) == 0 {
		return false
	}
	if x.C != nil && (x.C.Flags["nowf"] || x.C.Flags["helper"]) {
		return false
	}
	return true
}

func (x *Exec) assumeWF(st *St) {
	if !x.usesWF() {
		return
	}
	env := &CEnv{X: x, Names: map[string]*Val{}, St: st, Pkg: x.W.mainPkg()}
	x.wrapCfail("global invariant", func() {
		for _, inv := range x.W.CS.GlobalInvs {
			x.assume(st, env.HypFormula(inv.Expr))
		}
	})
	st.wfKnown = true
	st.wfSnap = map[string]*Term{}
	for k := range x.W.wfFields(x) {
		st.wfSnap[k] = st.heap[k]
	}
	st.pc = append(st.pc, x.wfAtom(st))
}

// wfAtom is the opaque predicate $WF(heap components) that records "the global invariant holds of this heap";
// lemma axioms are conditional on it.
func (x *Exec) wfAtom(st *St) *Term {
	keys := sortedKeys(x.W.wfFields(x))
	var args []*Term
	var sorts []Sort
	for _, k := range keys {
		t := x.heapKeyTerm(st, k)
		args = append(args, t)
		sorts = append(sorts, t.Sort)
	}
	x.W.BG.Funs["$WF"] = FunSig{Name: "$WF", Args: sorts, Res: SBool}
	return App("$WF", SBool, args...)
}

func (x *Exec) assertWF(st *St, where, pos string) {
	if !x.usesWF() {
		return
	}
	if st.wfKnown {
		same := true
		for k := range x.W.wfFields(x) {
			if st.wfSnap[k] != st.heap[k] {
				same = false
			}
		}
		if same {
			return
		}
	}
	env := &CEnv{X: x, Names: map[string]*Val{}, St: st, Pkg: x.W.mainPkg()}
	x.wrapCfail("global invariant", func() {
		for _, inv := range x.W.CS.GlobalInvs {
			x.emit(st, oblTemplate{kind: "wf", label: inv.Label, clause: inv.Text, props: inv.Props, pos: pos,
				name: x.Fn.Key + "/wf#" + inv.Label + "@" + where}, nil, env.Formula(inv.Expr))
		}
	})
}

// ---------- not yet modelled constructs ----------

// callProtocol calls a function value that obeys a named protocol (a contract for function values).
func (x *Exec) callProtocol(call *ast.CallExpr, fv *Val, st *St, fr *Frame, k kval) {
	if fv.Proto == "" {
		oos("call of an unknown function value at %s (no protocol attached)", x.W.pos(call.Pos()))
	}
	if !strings.HasPrefix(fv.Proto, "protocol.") {
		x.streamCall(call, fv, st, fr, k)
		return
	}
	fv = &Val{T: fv.T, Ty: fv.Ty, Proto: strings.TrimPrefix(fv.Proto, "protocol.")}
	c := x.W.CS.ByKey["protocol."+fv.Proto]
	if c == nil {
		oos("unknown protocol %s", fv.Proto)
	}
	if x.inst != "" {
		c = instantiateContract(c, x.inst, x.W.CS)
	}
	sig, ok := fv.Ty.Underlying().(*types.Signature)
	if !ok {
		oos("protocol call of a non-function at %s", x.W.pos(call.Pos()))
	}
	x.evalArgs(call.Args, st, fr, func(st *St, args []*Val) {
		names := map[string]*Val{"self": fv}
		for i, a := range args {
			if i < len(c.Params) && i < sig.Params().Len() {
				names[c.Params[i]] = x.coerce(st, a, sig.Params().At(i).Type())
			}
		}
		pos := x.W.pos(call.Pos())
		pre := st.clone()
		env := &CEnv{X: x, Names: names, St: st, Pkg: x.Fn.Pkg}
		x.wrapCfail("protocol "+fv.Proto, func() {
			for _, r := range c.Requires {
				x.emit(st, oblTemplate{kind: "pre", label: r.Label, clause: r.Text, props: r.Props, pos: pos,
					name: x.Fn.Key + "/call#" + c.Key + "/pre#" + r.Label}, nil, env.Formula(r.Expr))
			}
		})
		var targets []modTarget
		x.wrapCfail("modifies of protocol "+fv.Proto, func() { targets = x.modTargets(c, env) })
		x.havocAlloc(st)
		for _, t := range targets {
			x.havocTarget(st, t, call.Pos())
		}
		post := map[string]*Val{}
		for kx, v := range names {
			post[kx] = v
		}
		post["self"] = fv
		var rvals []*Val
		for i := 0; i < sig.Results().Len(); i++ {
			rv := x.freshVal(st, "ret.proto", x.Fn.substAll(fr, sig.Results().At(i).Type()))
			if i == 0 && c.Yields != "" {
				rv.Proto = x.W.protoOf(c.Yields)
			}
			rvals = append(rvals, rv)
			post[fmt.Sprintf("result%d", i)] = rv
			if i == 0 {
				post["result"] = rv
			}
		}
		penv := &CEnv{X: x, Names: post, St: st, Pkg: x.Fn.Pkg, Old: &CEnv{X: x, Names: names, St: pre, Pkg: x.Fn.Pkg}}
		x.wrapCfail("protocol "+fv.Proto, func() {
			for _, e := range c.Ensures {
				x.assume(st, penv.HypFormula(e.Expr))
			}
		})
		st.note("call of function value under protocol %s at %s", fv.Proto, pos)
		switch len(rvals) {
		case 0:
			k(st, &Val{})
		case 1:
			k(st, rvals[0])
		default:
			k(st, &Val{Tuple: rvals})
		}
	})
}

func (x *Exec) rangeIter(n *ast.RangeStmt, st *St, fr *Frame, k func(*St)) {
	handled := false
	func() {
		defer func() {
			if r := recover(); r != nil {
				if _, ok := r.(outOfSubset); ok && x.C != nil && x.C.Flags["partial"] {
					return
				}
				panic(r)
			}
		}()
		x.eval(n.X, st, fr, func(st *St, rv *Val) {
			if strings.HasPrefix(rv.Proto, "stream.") {
				handled = true
				x.rangeStream(n, rv, st, fr, k)
				return
			}
			oos("range over an iterator function without a stream protocol at %s", x.W.pos(n.Pos()))
		})
	}()
	if handled {
		return
	}
	if x.C != nil && x.C.Flags["partial"] {
		// the contract declares this function only partially covered: the path through the iterator loop is abandoned
		x.Notes = append(x.Notes, "UNCOVERED PATH: range over an iterator function at "+x.W.pos(n.Pos())+" (contract is marked partial)")
		return
	}
	oos("range over an iterator function at %s", x.W.pos(n.Pos()))
}

func (x *Exec) rangeSet(n *ast.RangeStmt, rv *Val, st *St, fr *Frame, k func(*St)) {
	oos("range over a map at %s", x.W.pos(n.Pos()))
}
