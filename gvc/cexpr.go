package gvc

import (
	"fmt"
	"strconv"
	"strings"
	"unicode"
)

// CExpr is a contract-language expression.
type CExpr struct {
	Kind string // int str char bool nil ident sel index slice call unop binop cond quant old
	Op   string // operator, identifier, literal text, quantifier kind
	Args []*CExpr
	Vars []CVar
	Trig [][]*CExpr
}

type CVar struct {
	Name string
	Type string // Go-ish type text: int, string, *Node, []*Node, bool
}

func (e *CExpr) String() string {
	switch e.Kind {
	case "int", "bool", "nil", "ident":
		return e.Op
	case "str":
		return strconv.Quote(e.Op)
	case "char":
		return strconv.QuoteRune(rune(e.Op[0]))
	case "sel":
		return e.Args[0].String() + "." + e.Op
	case "index":
		return e.Args[0].String() + "[" + e.Args[1].String() + "]"
	case "call":
		var as []string
		for _, a := range e.Args {
			as = append(as, a.String())
		}
		return e.Op + "(" + strings.Join(as, ", ") + ")"
	case "unop":
		return e.Op + e.Args[0].String()
	case "binop":
		return "(" + e.Args[0].String() + " " + e.Op + " " + e.Args[1].String() + ")"
	case "cond":
		return "(" + e.Args[0].String() + " ? " + e.Args[1].String() + " : " + e.Args[2].String() + ")"
	case "quant":
		var vs []string
		for _, v := range e.Vars {
			vs = append(vs, v.Name+" "+v.Type)
		}
		return "(" + e.Op + " " + strings.Join(vs, ", ") + " :: " + e.Args[0].String() + ")"
	}
	return "?" + e.Kind
}

type ctok struct {
	kind string // id int str char op eof
	text string
	pos  int
}

func clex(src string) ([]ctok, error) {
	var toks []ctok
	i := 0
	for i < len(src) {
		c := src[i]
		switch {
		case c == ' ' || c == '\t' || c == '\n' || c == '\r':
			i++
		case unicode.IsLetter(rune(c)) || c == '_' || c == '$':
			j := i + 1
			for j < len(src) && (unicode.IsLetter(rune(src[j])) || unicode.IsDigit(rune(src[j])) || src[j] == '_' || src[j] == '$') {
				j++
			}
			toks = append(toks, ctok{"id", src[i:j], i})
			i = j
		case c >= '0' && c <= '9':
			j := i + 1
			for j < len(src) && src[j] >= '0' && src[j] <= '9' {
				j++
			}
			toks = append(toks, ctok{"int", src[i:j], i})
			i = j
		case c == '"':
			j := i + 1
			for j < len(src) && src[j] != '"' {
				if src[j] == '\\' {
					j++
				}
				j++
			}
			if j >= len(src) {
				return nil, fmt.Errorf("unterminated string at %d", i)
			}
			s, err := strconv.Unquote(src[i : j+1])
			if err != nil {
				return nil, fmt.Errorf("bad string literal %s", src[i:j+1])
			}
			toks = append(toks, ctok{"str", s, i})
			i = j + 1
		case c == '\'':
			j := i + 1
			for j < len(src) && src[j] != '\'' {
				if src[j] == '\\' {
					j++
				}
				j++
			}
			if j >= len(src) {
				return nil, fmt.Errorf("unterminated char at %d", i)
			}
			r, _, _, err := strconv.UnquoteChar(src[i+1:j], '\'')
			if err != nil || r > 255 {
				return nil, fmt.Errorf("bad char literal %s", src[i:j+1])
			}
			toks = append(toks, ctok{"char", string([]byte{byte(r)}), i})
			i = j + 1
		default:
			ops := []string{"<==>", "==>", "::", "==", "!=", "<=", ">=", "&&", "||", "++", "..",
				"+", "-", "*", "/", "%", "<", ">", "!", "(", ")", "[", "]", "{", "}", ",", ".", "?", ":"}
			matched := false
			for _, op := range ops {
				if strings.HasPrefix(src[i:], op) {
					toks = append(toks, ctok{"op", op, i})
					i += len(op)
					matched = true
					break
				}
			}
			if !matched {
				return nil, fmt.Errorf("unexpected character %q at %d in %q", c, i, src)
			}
		}
	}
	toks = append(toks, ctok{"eof", "", len(src)})
	return toks, nil
}

type cparser struct {
	toks []ctok
	p    int
	src  string
}

func ParseCExpr(src string) (e *CExpr, err error) {
	toks, err := clex(src)
	if err != nil {
		return nil, err
	}
	ps := &cparser{toks: toks, src: src}
	defer func() {
		if r := recover(); r != nil {
			if pe, ok := r.(cparseErr); ok {
				err = fmt.Errorf("%s in %q", string(pe), src)
				return
			}
			panic(r)
		}
	}()
	e = ps.expr()
	if ps.peek().kind != "eof" {
		ps.fail("unexpected token " + ps.peek().text)
	}
	return e, nil
}

type cparseErr string

func (ps *cparser) fail(msg string) {
	panic(cparseErr(fmt.Sprintf("%s at offset %d", msg, ps.peek().pos)))
}
func (ps *cparser) peek() ctok { return ps.toks[ps.p] }
func (ps *cparser) next() ctok { t := ps.toks[ps.p]; ps.p++; return t }
func (ps *cparser) isOp(s string) bool {
	t := ps.peek()
	return t.kind == "op" && t.text == s
}
func (ps *cparser) accept(s string) bool {
	if ps.isOp(s) {
		ps.p++
		return true
	}
	return false
}
func (ps *cparser) expect(s string) {
	if !ps.accept(s) {
		ps.fail("expected " + s + ", found " + ps.peek().text)
	}
}

func (ps *cparser) expr() *CExpr { return ps.iff() }

func (ps *cparser) iff() *CExpr {
	l := ps.implies()
	for ps.accept("<==>") {
		r := ps.implies()
		l = &CExpr{Kind: "binop", Op: "<==>", Args: []*CExpr{l, r}}
	}
	return l
}

func (ps *cparser) implies() *CExpr {
	l := ps.cond()
	if ps.accept("==>") {
		r := ps.implies()
		return &CExpr{Kind: "binop", Op: "==>", Args: []*CExpr{l, r}}
	}
	return l
}

func (ps *cparser) cond() *CExpr {
	c := ps.or()
	if ps.accept("?") {
		a := ps.cond()
		ps.expect(":")
		b := ps.cond()
		return &CExpr{Kind: "cond", Args: []*CExpr{c, a, b}}
	}
	return c
}

func (ps *cparser) or() *CExpr {
	l := ps.and()
	for ps.accept("||") {
		r := ps.and()
		l = &CExpr{Kind: "binop", Op: "||", Args: []*CExpr{l, r}}
	}
	return l
}

func (ps *cparser) and() *CExpr {
	l := ps.cmp()
	for ps.accept("&&") {
		r := ps.cmp()
		l = &CExpr{Kind: "binop", Op: "&&", Args: []*CExpr{l, r}}
	}
	return l
}

func (ps *cparser) cmp() *CExpr {
	l := ps.add()
	for {
		t := ps.peek()
		if t.kind == "op" && (t.text == "==" || t.text == "!=" || t.text == "<" || t.text == "<=" || t.text == ">" || t.text == ">=") {
			ps.p++
			r := ps.add()
			l = &CExpr{Kind: "binop", Op: t.text, Args: []*CExpr{l, r}}
			continue
		}
		return l
	}
}

func (ps *cparser) add() *CExpr {
	l := ps.mul()
	for {
		t := ps.peek()
		if t.kind == "op" && (t.text == "+" || t.text == "-" || t.text == "++") {
			ps.p++
			r := ps.mul()
			l = &CExpr{Kind: "binop", Op: t.text, Args: []*CExpr{l, r}}
			continue
		}
		return l
	}
}

func (ps *cparser) mul() *CExpr {
	l := ps.unary()
	for {
		t := ps.peek()
		if t.kind == "op" && (t.text == "*" || t.text == "/" || t.text == "%") {
			ps.p++
			r := ps.unary()
			l = &CExpr{Kind: "binop", Op: t.text, Args: []*CExpr{l, r}}
			continue
		}
		return l
	}
}

func (ps *cparser) unary() *CExpr {
	if ps.accept("!") {
		return &CExpr{Kind: "unop", Op: "!", Args: []*CExpr{ps.unary()}}
	}
	if ps.accept("-") {
		return &CExpr{Kind: "unop", Op: "-", Args: []*CExpr{ps.unary()}}
	}
	return ps.postfix()
}

func (ps *cparser) postfix() *CExpr {
	e := ps.primary()
	for {
		switch {
		case ps.accept("."):
			t := ps.next()
			if t.kind != "id" {
				ps.fail("expected field name")
			}
			// qualified call pkg.f(...) or method-style spec call is not supported; field only
			if ps.isOp("(") && e.Kind == "ident" {
				// qualified function: md.f(args)
				ps.p++
				args := ps.args()
				e = &CExpr{Kind: "call", Op: e.Op + "." + t.text, Args: args}
				continue
			}
			e = &CExpr{Kind: "sel", Op: t.text, Args: []*CExpr{e}}
		case ps.accept("["):
			var lo, hi *CExpr
			if !ps.isOp(":") {
				lo = ps.expr()
			}
			if ps.accept(":") {
				if !ps.isOp("]") {
					hi = ps.expr()
				}
				ps.expect("]")
				e = &CExpr{Kind: "slice", Args: []*CExpr{e, lo, hi}}
				continue
			}
			ps.expect("]")
			e = &CExpr{Kind: "index", Args: []*CExpr{e, lo}}
		default:
			return e
		}
	}
}

func (ps *cparser) args() []*CExpr {
	var args []*CExpr
	if ps.accept(")") {
		return args
	}
	for {
		args = append(args, ps.expr())
		if ps.accept(")") {
			return args
		}
		ps.expect(",")
	}
}

func (ps *cparser) typeText() string {
	// a Go-ish type: sequence of tokens until ',' or '::'
	var sb strings.Builder
	for {
		t := ps.peek()
		if t.kind == "eof" || (t.kind == "op" && (t.text == "," || t.text == "::")) {
			break
		}
		sb.WriteString(t.text)
		ps.p++
	}
	return sb.String()
}

func (ps *cparser) primary() *CExpr {
	t := ps.next()
	switch t.kind {
	case "int":
		return &CExpr{Kind: "int", Op: t.text}
	case "str":
		return &CExpr{Kind: "str", Op: t.text}
	case "char":
		return &CExpr{Kind: "char", Op: t.text}
	case "id":
		switch t.text {
		case "true", "false":
			return &CExpr{Kind: "bool", Op: t.text}
		case "nil":
			return &CExpr{Kind: "nil", Op: "nil"}
		case "forall", "exists":
			var vars []CVar
			for {
				n := ps.next()
				if n.kind != "id" {
					ps.fail("expected bound variable name")
				}
				ty := ps.typeText()
				vars = append(vars, CVar{n.text, ty})
				if ps.accept(",") {
					continue
				}
				break
			}
			ps.expect("::")
			var trig [][]*CExpr
			for ps.isOp("{") {
				ps.p++
				var pat []*CExpr
				for {
					pat = append(pat, ps.expr())
					if ps.accept("}") {
						break
					}
					ps.expect(",")
				}
				trig = append(trig, pat)
			}
			body := ps.expr()
			return &CExpr{Kind: "quant", Op: t.text, Vars: vars, Trig: trig, Args: []*CExpr{body}}
		}
		if ps.accept("(") {
			args := ps.args()
			return &CExpr{Kind: "call", Op: t.text, Args: args}
		}
		return &CExpr{Kind: "ident", Op: t.text}
	case "op":
		if t.text == "(" {
			e := ps.expr()
			ps.expect(")")
			return e
		}
	}
	ps.p--
	ps.fail("unexpected token " + t.text)
	return nil
}
