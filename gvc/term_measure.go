package gvc

import (
	"go/ast"
	"go/types"
)

// measureComp is one component of a lexicographic termination measure.
type measureComp struct {
	down bool  // structural descent through a children field
	t    *Term // integer value, or the node for down()
	kids *Term // for down(): the children sequence of t (nil if t has no children field)
}

// measureOf evaluates a decreases list in env.
func (x *Exec) measureOf(c *Contract, env *CEnv) []measureComp {
	var out []measureComp
	for _, e := range c.DecList {
		if e.Kind == "call" && e.Op == "down" && len(e.Args) == 1 {
			v := env.tr(e.Args[0])
			if v.T == nil || v.T.Sort != SRef {
				cfail("down() needs a reference: %s", e)
			}
			mc := measureComp{down: true, t: v.T}
			if kf := x.childrenField(v.Ty); kf != "" {
				mc.kids = x.selectField(env.St, v, kf, nil, nil).T
			}
			out = append(out, mc)
			continue
		}
		v := env.tr(e)
		if v.T == nil || v.T.Sort != SInt {
			cfail("decreases component is not an integer: %s", e)
		}
		out = append(out, measureComp{t: v.T})
	}
	return out
}

// childrenField finds the field of a struct that is a slice of pointers to the same struct.
func (x *Exec) childrenField(ty types.Type) string {
	if ty == nil {
		return ""
	}
	st, ok := derefType(ty).Underlying().(*types.Struct)
	if !ok {
		return ""
	}
	for i := 0; i < st.NumFields(); i++ {
		f := st.Field(i)
		if sl, ok := f.Type().Underlying().(*types.Slice); ok {
			if p, ok := sl.Elem().Underlying().(*types.Pointer); ok && types.Identical(p.Elem(), derefType(ty)) {
				return f.Name()
			}
		}
	}
	return ""
}

// decreasesGoal: callee measure m1 is lexicographically below caller measure m0.
func decreasesGoal(m1, m0 []measureComp) *Term {
	n := len(m0)
	if len(m1) < n {
		n = len(m1)
	}
	var alts []*Term
	var eqs []*Term
	for p := 0; p < n; p++ {
		a, b := m1[p], m0[p]
		if a.down != b.down {
			break
		}
		var less, eq *Term
		if a.down {
			if b.kids == nil {
				break
			}
			less = And(Neq(b.t, Null), SeqContains(b.kids, a.t))
			eq = Eq(a.t, b.t)
		} else {
			less = And(Cmp("<", a.t, b.t), Cmp("<=", IntLit(0), b.t))
			eq = Eq(a.t, b.t)
		}
		alts = append(alts, And(append(append([]*Term(nil), eqs...), less)...))
		eqs = append(eqs, eq)
	}
	return Or(alts...)
}

// ---------- call graph among contracted / spec functions (for recursion groups) ----------

func (w *World) callees(fi *FuncInfo) map[string]bool {
	out := map[string]bool{}
	if fi.Decl == nil || fi.Decl.Body == nil {
		return out
	}
	info := fi.Pkg.TypesInfo
	ast.Inspect(fi.Decl.Body, func(n ast.Node) bool {
		ce, ok := n.(*ast.CallExpr)
		if !ok {
			return true
		}
		var obj *types.Func
		switch f := ast.Unparen(ce.Fun).(type) {
		case *ast.Ident:
			obj, _ = info.Uses[f].(*types.Func)
		case *ast.SelectorExpr:
			if sel := info.Selections[f]; sel != nil {
				obj, _ = sel.Obj().(*types.Func)
			} else {
				obj, _ = info.Uses[f.Sel].(*types.Func)
			}
		case *ast.IndexExpr:
			if id, ok := ast.Unparen(f.X).(*ast.Ident); ok {
				obj, _ = info.Uses[id].(*types.Func)
			}
		}
		if obj != nil {
			out[KeyOfFunc(obj)] = true
		}
		return true
	})
	return out
}

// SameSCC reports whether functions a and b (keys) can call each other (directly or through inlined helpers).
func (w *World) SameSCC(a, b string) bool {
	if w.reach == nil {
		w.reach = map[string]map[string]bool{}
		for k, fi := range w.Funcs {
			w.reach[k] = w.callees(fi)
		}
		for changed := true; changed; {
			changed = false
			for _, m := range w.reach {
				for c := range m {
					for c2 := range w.reach[c] {
						if !m[c2] {
							m[c2] = true
							changed = true
						}
					}
				}
			}
		}
	}
	if a == b {
		return w.reach[a][a]
	}
	return w.reach[a][b] && w.reach[b][a]
}
