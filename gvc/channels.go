package gvc

import (
	"fmt"
	"go/ast"
	"go/token"
	"go/types"
	"strings"
)

// Channels, select and go statements: a sequential, per-goroutine model.
//
// A channel carries a named channel protocol ("channel P(v)" with requires clauses and optional subjects); which protocol
// a channel variable, parameter or result carries is declared in the contract of the function ("carries x: P(a)"; the
// closures of a function inherit its declarations). A send asserts the protocol's requires clauses for the value sent,
// a receive assumes them for the value received (the zero value when the channel was closed). A select statement is a
// nondeterministic choice among its cases. "go f(args)" checks f's precondition and the protocols of the channels
// handed over and then continues: nothing the goroutine does is visible to the spawner. A goroutine body is verified as
// an ordinary sequential procedure (a function or a closure under contract).
// NOT modelled: interleavings. The facts a goroutine relies on between two of its steps are assumed not to be invalidated
// by other goroutines (ownership of a tree travels with the channel message); blocking, deadlock, leaks and data races
// are outside this model (properties C10, C11 are not applicable).

func (x *Exec) carryDecl(fr *Frame, name string) *CarryDecl {
	c := x.C
	if c != nil && c.Carries != nil {
		if cd, ok := c.Carries[name]; ok {
			return cd
		}
	}
	// closures inherit the declarations of the enclosing function
	if x.Fn != nil && x.Fn.Lit != nil {
		if i := strings.LastIndex(x.Fn.Key, "#"); i > 0 {
			if pc := x.W.CS.ByKey[x.Fn.Key[:i]]; pc != nil && pc.Carries != nil {
				if cd, ok := pc.Carries[name]; ok {
					return cd
				}
			}
		}
	}
	return nil
}

// chanDecorate attaches the declared channel protocol to the value of a channel-typed variable.
func (x *Exec) chanDecorate(v *Val, name string, st *St, fr *Frame) *Val {
	if v == nil || v.Ty == nil || fr == nil || fr.inlined || x.pure {
		return v
	}
	prefix := "chan."
	if sl, isSlice := v.Ty.Underlying().(*types.Slice); isSlice {
		// a slice of channels: every element carries the protocol (protocols with subjects are not supported here)
		if _, isChan := sl.Elem().Underlying().(*types.Chan); !isChan {
			return v
		}
		prefix = "chans."
	} else if _, isChan := v.Ty.Underlying().(*types.Chan); !isChan {
		return v
	}
	cd := x.carryDecl(fr, name)
	if cd == nil {
		return v
	}
	if x.W.CS.ByKey["chan."+cd.Proto] == nil {
		cfail("carries %s: unknown channel protocol %s", name, cd.Proto)
	}
	if prefix == "chans." && len(cd.Args) > 0 {
		cfail("carries %s: a slice of channels cannot carry a protocol with subjects", name)
	}
	c := *v
	c.Proto = prefix + cd.Proto
	c.Subj = nil
	if len(cd.Args) > 0 {
		env := &CEnv{X: x, Names: x.localNames(st, fr, nil), St: st, Pkg: x.Fn.Pkg}
		x.wrapCfail("subjects of channel "+name, func() {
			for i, e := range cd.Args {
				if b := binderName(e); b != "" {
					c.Subj = append(c.Subj, x.binderVal(st, cd, i, b))
					continue
				}
				c.Subj = append(c.Subj, x.typedSubject(x.W.CS.ByKey[c.Proto], i, env.tr(e)))
			}
		})
	}
	return &c
}

// binderName: a subject argument written $g names the (unknown but fixed) subject of a channel that comes in from
// outside; the clauses of the contract refer to it as g.
func binderName(e *CExpr) string {
	if e != nil && e.Kind == "ident" && strings.HasPrefix(e.Op, "$") && e.Op != "$i" && e.Op != "$T" && len(e.Op) > 1 {
		return e.Op[1:]
	}
	return ""
}

// binderVal: the value of a subject binder, created once per verification unit and visible under its name.
func (x *Exec) binderVal(st *St, cd *CarryDecl, i int, name string) *Val {
	if v, ok := x.entryNames[name]; ok && v != nil {
		return v
	}
	cc := x.W.CS.ByKey["chan."+cd.Proto]
	v := x.freshSubject(st, cc, i, name)
	if x.entryNames == nil {
		x.entryNames = map[string]*Val{}
	}
	x.entryNames[name] = v
	return v
}

// bindCarriedSubjects introduces the subject binders ($g) of the carries clauses that apply to the unit under verification.
func (x *Exec) bindCarriedSubjects(st *St, names map[string]*Val) {
	var cs []*Contract
	if x.C != nil {
		cs = append(cs, x.C)
	}
	if x.Fn != nil && x.Fn.Lit != nil {
		if i := strings.LastIndex(x.Fn.Key, "#"); i > 0 {
			if pc := x.W.CS.ByKey[x.Fn.Key[:i]]; pc != nil {
				cs = append(cs, pc)
			}
		}
	}
	for _, c := range cs {
		for _, pn := range sortedKeys(c.Carries) {
			cd := c.Carries[pn]
			for i, e := range cd.Args {
				if b := binderName(e); b != "" {
					if _, ok := names[b]; !ok {
						cc := x.W.CS.ByKey["chan."+cd.Proto]
						names[b] = x.freshSubject(st, cc, i, b)
					}
				}
			}
		}
	}
}

// typedSubject gives an untyped nil subject the declared type of the subject.
func (x *Exec) typedSubject(cc *Contract, i int, v *Val) *Val {
	if v != nil && v.T != nil && v.T.Op == "null" {
		return x.nullSubject(cc, i)
	}
	return v
}

func (x *Exec) chanContract(v *Val) *Contract {
	if v == nil || !strings.HasPrefix(v.Proto, "chan.") {
		return nil
	}
	return x.W.CS.ByKey[v.Proto]
}

// chanEnv binds the value and the subjects of a channel protocol.
func (x *Exec) chanEnv(st *St, cc *Contract, ch *Val, val *Val) *CEnv {
	names := map[string]*Val{}
	if len(cc.Params) > 0 && val != nil {
		names[cc.Params[0]] = val
	}
	for i, s := range cc.Subjects {
		if i < len(ch.Subj) && ch.Subj[i] != nil {
			names[s] = ch.Subj[i]
		} else {
			names[s] = x.freshSubject(st, cc, i, s)
		}
	}
	return &CEnv{X: x, Names: names, St: st, Pkg: x.W.mainPkg()}
}

// chanSend: ch <- v
func (x *Exec) chanSend(ch, v *Val, st *St, fr *Frame, p token.Pos) {
	pos := x.W.pos(p)
	cc := x.chanContract(ch) // (a send on a nil channel blocks for ever: a hang, not a panic; not a safety obligation here)
	if cc == nil {
		oos("send on a channel that carries no declared protocol at %s", pos)
	}
	if et, ok := ch.Ty.Underlying().(*types.Chan); ok {
		v = x.coerce(st, v, et.Elem())
	}
	env := x.chanEnv(st, cc, ch, v)
	name := strings.TrimPrefix(cc.Key, "chan.")
	x.wrapCfail("channel "+name, func() {
		for _, r := range cc.Requires {
			x.emit(st, oblTemplate{kind: "send", label: r.Label, clause: r.Text, props: r.Props, pos: pos,
				name: x.Fn.Key + "/send#" + name + "/" + r.Label}, nil, env.Formula(r.Expr))
		}
	})
	x.assertWF(st, "send#"+name, pos)
	// "records G := e" on a channel protocol: ghost bookkeeping performed by every send (e.g. that an error was reported)
	if len(cc.Records) > 0 {
		x.wrapCfail("records of channel "+name, func() {
			vals := make([]*Term, len(cc.Records))
			for i, r := range cc.Records {
				vals[i] = env.tr(r.Expr).T
			}
			for i, r := range cc.Records {
				g := x.W.GhostVars[r.Var]
				if g == nil || vals[i] == nil || vals[i].Sort != g.Sort {
					cfail("records %s of channel %s: unknown ghost variable or wrong sort", r.Var, name)
				}
				x.checkWrite(st, g.Key, Null, p)
				nw := x.fresh(g.Key, g.Sort)
				x.assume(st, Eq(nw, vals[i]))
				st.heap[g.Key] = nw
			}
		})
	}
	st.note("send on channel %s at %s", name, pos)
}

// chanRecv: v, ok := <-ch. Returns the received value and ok.
func (x *Exec) chanRecv(ch *Val, st *St, fr *Frame, p token.Pos) (*Val, *Val) {
	pos := x.W.pos(p)
	ct, isChan := ch.Ty.Underlying().(*types.Chan)
	if !isChan {
		oos("receive from a non-channel at %s", pos)
	}
	v := x.freshVal(st, "recv", ct.Elem())
	x.paramFacts(st, v)
	ok := x.freshVal(st, "recv.ok", types.Typ[types.Bool])
	if cc := x.chanContract(ch); cc != nil {
		env := x.chanEnv(st, cc, ch, v)
		x.wrapCfail("channel "+cc.Key, func() {
			for _, r := range cc.Requires {
				x.assume(st, Implies(ok.T, env.HypFormula(r.Expr)))
			}
		})
	}
	// a closed channel delivers the zero value
	if z := x.zeroVal(ct.Elem()); z.T != nil && v.T != nil {
		x.assume(st, Implies(Not(ok.T), Eq(v.T, z.T)))
	}
	// "receives G := e": ghost bookkeeping of the receiving goroutine at every receive; e may mention ok (false when
	// the channel was closed and the zero value was delivered)
	if cc := x.chanContract(ch); cc != nil && len(cc.Receives) > 0 {
		env := x.chanEnv(st, cc, ch, v)
		env.Names["ok"] = ok
		name := strings.TrimPrefix(cc.Key, "chan.")
		x.wrapCfail("receives of channel "+name, func() {
			vals := make([]*Term, len(cc.Receives))
			for i, r := range cc.Receives {
				vals[i] = env.tr(r.Expr).T
			}
			for i, r := range cc.Receives {
				g := x.W.GhostVars[r.Var]
				if g == nil || vals[i] == nil || vals[i].Sort != g.Sort {
					cfail("receives %s of channel %s: unknown ghost variable or wrong sort", r.Var, name)
				}
				x.checkWrite(st, g.Key, Null, p)
				nw := x.fresh(g.Key, g.Sort)
				x.assume(st, Eq(nw, vals[i]))
				st.heap[g.Key] = nw
			}
		})
	}
	st.note("receive from a channel at %s", pos)
	return v, ok
}

func (x *Exec) sendStmt(n *ast.SendStmt, st *St, fr *Frame, k func(*St)) {
	x.eval(n.Chan, st, fr, func(st *St, ch *Val) {
		x.eval(n.Value, st, fr, func(st *St, v *Val) {
			x.chanSend(ch, v, st, fr, n.Arrow)
			k(st)
		})
	})
}

func (x *Exec) evalRecv(n *ast.UnaryExpr, st *St, fr *Frame, k kval) {
	x.eval(n.X, st, fr, func(st *St, ch *Val) {
		v, _ := x.chanRecv(ch, st, fr, n.OpPos)
		k(st, v)
	})
}

func (x *Exec) recvStmt(r *ast.UnaryExpr, lhs []ast.Expr, define bool, st *St, fr *Frame, k func(*St)) {
	x.eval(r.X, st, fr, func(st *St, ch *Val) {
		v, ok := x.chanRecv(ch, st, fr, r.OpPos)
		if len(lhs) > 0 {
			x.assignTo(lhs[0], v, st, fr, define)
		}
		if len(lhs) > 1 {
			x.assignTo(lhs[1], ok, st, fr, define)
		}
		k(st)
	})
}

// selectStmt: a nondeterministic choice among the communication clauses (and default).
func (x *Exec) selectStmt(n *ast.SelectStmt, st *St, fr *Frame, k func(*St)) {
	label := fr.label
	for _, cl := range n.Body.List {
		cc := cl.(*ast.CommClause)
		s2 := st.clone()
		// an unlabelled break inside a select leaves the select, continue still refers to the enclosing loop
		nf := *fr
		nf.brk = k
		nf.label = ""
		if label != "" {
			nf.lbrk = map[string]func(*St){}
			for kx, v := range fr.lbrk {
				nf.lbrk[kx] = v
			}
			nf.lbrk[label] = k
		}
		body := func(s *St) { x.block(cc.Body, s, &nf, k) }
		switch c := cc.Comm.(type) {
		case nil:
			s2.note("select: default")
			body(s2)
		case *ast.SendStmt:
			x.sendStmt(c, s2, &nf, body)
		case *ast.ExprStmt:
			u, ok := ast.Unparen(c.X).(*ast.UnaryExpr)
			if !ok || u.Op != token.ARROW {
				oos("unsupported select case at %s", x.W.pos(c.Pos()))
			}
			x.recvStmt(u, nil, false, s2, &nf, body)
		case *ast.AssignStmt:
			u, ok := ast.Unparen(c.Rhs[0]).(*ast.UnaryExpr)
			if !ok || u.Op != token.ARROW || len(c.Rhs) != 1 {
				oos("unsupported select case at %s", x.W.pos(c.Pos()))
			}
			x.recvStmt(u, c.Lhs, c.Tok == token.DEFINE, s2, &nf, body)
		default:
			oos("unsupported select case at %s", x.W.pos(cc.Pos()))
		}
	}
}

// goStmt: go f(args) / go func(){...}(): the spawner checks what the goroutine needs and continues.
func (x *Exec) goStmt(n *ast.GoStmt, st *St, fr *Frame, k func(*St)) {
	call := n.Call
	pos := x.W.pos(n.Pos())
	fun := ast.Unparen(call.Fun)
	if lit, ok := fun.(*ast.FuncLit); ok {
		ord, has := fr.fi.Lits[lit]
		if !has || fr.inlined {
			oos("go statement with a function literal of an inlined function at %s", pos)
		}
		key := fmt.Sprintf("%s#%d", fr.fi.Key, ord)
		if cc := x.W.CS.ByKey[key]; cc == nil || cc.Kind != "closure" {
			oos("go statement at %s: the goroutine body %s has no closure contract", pos, key)
		}
		if len(call.Args) > 0 {
			oos("go statement with arguments to a function literal at %s", pos)
		}
		// evaluating the literal checks the closure's precondition where it is created
		x.eval(lit, st, fr, func(st *St, _ *Val) {
			x.assertWF(st, "go#"+key, pos)
			env := &CEnv{X: x, Names: x.localNames(st, fr, nil), St: st, Pkg: x.Fn.Pkg}
			x.joinEffects(x.W.CS.ByKey[key], env, st, n.Pos())
			x.spawnEffects(x.W.CS.ByKey[key], env, st, n.Pos())
			st.note("go: goroutine %s started at %s", key, pos)
			k(st)
		})
		return
	}
	// a statically known function or method
	var obj *types.Func
	var recvExpr ast.Expr
	switch f := fun.(type) {
	case *ast.Ident:
		obj, _ = fr.info.Uses[f].(*types.Func)
	case *ast.SelectorExpr:
		if sel := fr.info.Selections[f]; sel != nil && sel.Kind() == types.MethodVal {
			obj, _ = sel.Obj().(*types.Func)
			recvExpr = f.X
		} else if o, ok := fr.info.Uses[f.Sel].(*types.Func); ok {
			obj = o
		}
	}
	if obj == nil {
		oos("go statement with an unknown callee at %s", pos)
	}
	key := KeyOfFunc(obj)
	c := x.W.CS.ByKey[key]
	fi := x.W.ByObj[obj.Origin()]
	if c == nil || fi == nil {
		oos("go statement at %s: the goroutine body %s has no contract", pos, key)
	}
	run := func(st *St, recv *Val) {
		x.evalArgs(call.Args, st, fr, func(st *St, args []*Val) {
			if recv != nil {
				// methods promoted through embedded fields are not needed here
				x.safety(st, fr, Neq(recv.T, Null), "nil", call.Lparen)
			}
			x.spawnChecks(call, c, obj, fi, recv, args, st, fr)
			st.note("go: goroutine %s started at %s", key, pos)
			k(st)
		})
	}
	if recvExpr != nil {
		x.eval(recvExpr, st, fr, func(st *St, recv *Val) { run(st, recv) })
		return
	}
	run(st, nil)
}

// spawnChecks: the precondition of the goroutine body and the protocols of the channels handed over.
func (x *Exec) spawnChecks(call *ast.CallExpr, c *Contract, obj *types.Func, fi *FuncInfo, recv *Val, args []*Val, st *St, fr *Frame) {
	sig := obj.Type().(*types.Signature)
	recvName, pnames := x.paramNames(c, obj, fi)
	names := map[string]*Val{}
	if recv != nil && recvName != "" {
		names[recvName] = recv
	}
	for i, a := range args {
		if i < len(pnames) && pnames[i] != "_" {
			names[pnames[i]] = x.coerce(st, a, sig.Params().At(min(i, sig.Params().Len()-1)).Type())
			if a != nil {
				names[pnames[i]].Proto, names[pnames[i]].Subj = a.Proto, a.Subj
			}
		}
	}
	pos := x.W.pos(call.Pos())
	env := &CEnv{X: x, Names: names, St: st, Pkg: fi.Pkg}
	x.checkCarries(c, names, env, st, "go#"+c.Key, pos)
	x.wrapCfail("precondition of "+c.Key, func() {
		for _, r := range append(append([]*Clause{}, c.Requires...), c.Relies...) {
			x.emit(st, oblTemplate{kind: "pre", label: r.Label, clause: r.Text, props: r.Props, pos: pos,
				name: x.Fn.Key + "/go#" + c.Key + "/pre#" + r.Label}, nil, env.Formula(r.Expr))
		}
	})
	x.assertWF(st, "go#"+c.Key, pos)
	x.joinEffects(c, env, st, call.Pos())
	x.spawnEffects(c, env, st, call.Pos())
}

// joinEffects: a goroutine that "joins wg" has been started: it uses up one announcement (wg.Add) of the spawner.
func (x *Exec) joinEffects(c *Contract, env *CEnv, st *St, p token.Pos) {
	if len(c.Joins) == 0 {
		return
	}
	f := x.W.Fields["sync.WaitGroup.spawned"]
	if f == nil {
		oos("joins clause of %s: the trusted model of sync.WaitGroup is not loaded", c.Key)
	}
	x.wrapCfail("joins of "+c.Key, func() {
		for _, j := range c.Joins {
			r := env.tr(j.Expr).T
			x.checkWrite(st, f.Key, r, p)
			old := st.field(f)
			nw := x.fresh(f.Key, old.Sort)
			x.assume(st, Eq(nw, Store(old, r, Arith("+", Select(old, r), IntLit(1)))))
			st.heap[f.Key] = nw
		}
	})
}

// checkCarries: every channel argument carries the protocol (and subjects) the callee's contract declares for it.
func (x *Exec) checkCarries(c *Contract, names map[string]*Val, env *CEnv, st *St, where, pos string) {
	for _, pn := range sortedKeys(c.Carries) {
		if strings.HasPrefix(pn, "result") {
			continue
		}
		v, ok := names[pn]
		if !ok || v == nil {
			continue // a local of the callee
		}
		cd := c.Carries[pn]
		want := "chan." + cd.Proto
		if v.Ty != nil {
			if _, isSlice := v.Ty.Underlying().(*types.Slice); isSlice {
				want = "chans." + cd.Proto
			}
		}
		tmpl := oblTemplate{kind: "carries", label: pn, pos: pos, clause: "channel argument " + pn + " carries " + cd.Text,
			name: x.Fn.Key + "/" + where + "/carries#" + pn}
		if v.Proto != want {
			x.emit(st, tmpl, nil, False)
			continue
		}
		x.wrapCfail("subjects of channel "+pn, func() {
			for i, e := range cd.Args {
				if b := binderName(e); b != "" {
					// the callee's name for the subject of this argument
					if i < len(v.Subj) && v.Subj[i] != nil {
						names[b] = v.Subj[i]
					} else {
						names[b] = x.freshSubject(st, x.W.CS.ByKey[want], i, b)
					}
					continue
				}
				goal := False
				if i < len(v.Subj) && v.Subj[i] != nil && v.Subj[i].T != nil {
					goal = Eq(env.tr(e).T, v.Subj[i].T)
				}
				x.emit(st, tmpl, nil, goal)
			}
		})
	}
}

// spawnEffects: what a goroutine may modify is, from the go statement on, out of the spawner's hands: it must be allowed by
// the spawner's own modifies clause, and the spawner forgets what it knew about it.
func (x *Exec) spawnEffects(c *Contract, env *CEnv, st *St, p token.Pos) {
	var targets []modTarget
	x.wrapCfail("modifies of "+c.Key, func() { targets = x.modTargets(c, env) })
	x.havocAlloc(st)
	for _, t := range targets {
		x.havocTarget(st, t, p)
	}
	x.assumeWF(st)
	// what every goroutine preserves holds again after the interference
	x.wrapCfail("rely of "+c.Key, func() {
		for _, r := range c.Relies {
			x.assume(st, env.HypFormula(r.Expr))
		}
	})
}

// carriedResult decorates result i of a call by contract with the channel protocol the callee declares for it.
func (x *Exec) carriedResult(c *Contract, i int, rv *Val, env *CEnv) {
	cd := c.Carries[fmt.Sprintf("result%d", i)]
	if cd == nil {
		return
	}
	rv.Proto = "chan." + cd.Proto
	rv.Subj = nil
	x.wrapCfail("subjects of channel result", func() {
		for i, e := range cd.Args {
			rv.Subj = append(rv.Subj, x.typedSubject(x.W.CS.ByKey[rv.Proto], i, env.tr(e)))
		}
	})
}

// checkCarriedResults: at a return of the function under contract, the channels returned carry what the contract promises.
func (x *Exec) checkCarriedResults(st *St, c *Contract, rvals []*Val, env *CEnv) {
	for i, rv := range rvals {
		cd := c.Carries[fmt.Sprintf("result%d", i)]
		if cd == nil {
			continue
		}
		tmpl := oblTemplate{kind: "carries", label: fmt.Sprintf("result%d", i), clause: fmt.Sprintf("result %d carries %s", i, cd.Text)}
		if rv == nil || rv.Proto != "chan."+cd.Proto {
			x.emit(st, tmpl, nil, False)
			continue
		}
		x.wrapCfail("subjects of channel result", func() {
			for j, e := range cd.Args {
				goal := False
				if j < len(rv.Subj) && rv.Subj[j] != nil && rv.Subj[j].T != nil {
					goal = Eq(env.tr(e).T, rv.Subj[j].T)
				}
				x.emit(st, tmpl, nil, goal)
			}
		})
	}
}
