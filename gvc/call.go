package gvc

import (
	"fmt"
	"go/ast"
	"go/constant"
	"go/token"
	"go/types"
	"sort"
	"strings"
)

const maxInlineDepth = 6

func (x *Exec) evalArgs(es []ast.Expr, st *St, fr *Frame, k func(*St, []*Val)) {
	var step func(i int, st *St, acc []*Val)
	step = func(i int, st *St, acc []*Val) {
		if i == len(es) {
			k(st, acc)
			return
		}
		x.eval(es[i], st, fr, func(st *St, v *Val) {
			step(i+1, st, append(append([]*Val(nil), acc...), v))
		})
	}
	step(0, st, nil)
}

func (x *Exec) evalCall(call *ast.CallExpr, st *St, fr *Frame, k kval) {
	if hooks := x.afterHooksFor(call, fr); len(hooks) > 0 {
		k0 := k
		k = func(st *St, v *Val) {
			x.applyAfterHooks(hooks, call, st, fr, v)
			if !st.dead {
				k0(st, v)
			}
		}
	}
	x.evalCall0(call, st, fr, k)
}

// calleeName: the identifier a call names its callee by (f(...), x.m(...), pkg.F(...)).
func calleeName(call *ast.CallExpr) string {
	switch f := ast.Unparen(call.Fun).(type) {
	case *ast.Ident:
		return f.Name
	case *ast.SelectorExpr:
		return f.Sel.Name
	case *ast.IndexExpr:
		if id, ok := ast.Unparen(f.X).(*ast.Ident); ok {
			return id.Name
		}
	}
	return ""
}

// afterHooksFor: the "after callee: G := e" clauses of the contract under verification that apply to this call
// (only calls written in the body of the function under contract itself, not in inlined callees).
func (x *Exec) afterHooksFor(call *ast.CallExpr, fr *Frame) []*AfterHook {
	if x.pure || x.C == nil || len(x.C.Afters) == 0 || fr == nil || fr.inlined {
		return nil
	}
	nm := calleeName(call)
	if nm == "" {
		return nil
	}
	// "after next" applies to every call of a pull function (the first result of iter.Pull2: a parameterless function
	// variable whose last result is the ok flag), whatever the local that holds it is called
	isPull := false
	if id, ok := ast.Unparen(call.Fun).(*ast.Ident); ok {
		if v, ok := fr.info.Uses[id].(*types.Var); ok {
			if sig, ok := v.Type().Underlying().(*types.Signature); ok && sig.Params().Len() == 0 && sig.Results().Len() >= 2 {
				if b, ok := sig.Results().At(sig.Results().Len() - 1).Type().Underlying().(*types.Basic); ok && b.Kind() == types.Bool {
					isPull = true
				}
			}
		}
	}
	var out []*AfterHook
	for _, h := range x.C.Afters {
		if h.Callee == nm || (isPull && h.Callee == "next") {
			out = append(out, h)
		}
	}
	return out
}

func (x *Exec) applyAfterHooks(hooks []*AfterHook, call *ast.CallExpr, st *St, fr *Frame, v *Val) {
	extra := map[string]*Val{}
	if v != nil {
		if v.Tuple != nil {
			for i, rv := range v.Tuple {
				extra[fmt.Sprintf("result%d", i)] = rv
			}
			if len(v.Tuple) > 0 {
				extra["result"] = v.Tuple[0]
			}
		} else if v.T != nil || v.Fields != nil {
			extra["result"] = v
			extra["result0"] = v
		}
	}
	// arg0, arg1, ... and recv: the argument / receiver expressions of the call, when they are plain variables or field
	// selections (evaluated after the call), so that a clause need not name the locals of the function under contract
	plain := func(e ast.Expr) bool {
		ok := true
		ast.Inspect(e, func(n ast.Node) bool {
			switch n.(type) {
			case *ast.CallExpr, *ast.FuncLit, *ast.UnaryExpr, *ast.BinaryExpr, *ast.IndexExpr, *ast.SliceExpr, *ast.CompositeLit, *ast.TypeAssertExpr:
				ok = false
			}
			return ok
		})
		return ok
	}
	try := func(name string, e ast.Expr) {
		if e == nil || !plain(e) {
			return
		}
		defer func() { recover() }()
		saved := x.Obls
		v := x.evalPure(e, st.clone(), fr)
		x.Obls = saved
		if v != nil {
			extra[name] = v
		}
	}
	for i, a := range call.Args {
		try(fmt.Sprintf("arg%d", i), a)
	}
	if se, ok := ast.Unparen(call.Fun).(*ast.SelectorExpr); ok {
		if sel := fr.info.Selections[se]; sel != nil && sel.Kind() == types.MethodVal {
			try("recv", se.X)
		}
	}
	env := &CEnv{X: x, Names: x.localNames(st, fr, extra), St: st, Pkg: x.Fn.Pkg}
	x.wrapCfail("after-call ghost update in "+x.C.Key, func() {
		vals := make([]*Term, len(hooks))
		for i, h := range hooks {
			vals[i] = env.tr(h.Expr).T
		}
		for i, h := range hooks {
			g, ok := x.W.GhostVars[h.Var]
			if !ok {
				cfail("after %s: unknown ghost variable %s", h.Callee, h.Var)
			}
			if vals[i] == nil || vals[i].Sort != g.Sort {
				cfail("after %s: value of %s has the wrong sort", h.Callee, h.Var)
			}
			x.checkWrite(st, g.Key, Null, call.Pos())
			nw := x.fresh(g.Key, g.Sort)
			x.assume(st, Eq(nw, vals[i]))
			st.heap[g.Key] = nw
		}
	})
	st.note("ghost update after the call of %s at %s", calleeName(call), x.W.pos(call.Pos()))
}

func (x *Exec) evalCall0(call *ast.CallExpr, st *St, fr *Frame, k kval) {
	fun := ast.Unparen(call.Fun)
	// generic instantiation f[T](...)
	if ix, ok := fun.(*ast.IndexExpr); ok {
		if tv, ok := fr.info.Types[ix.X]; ok && !tv.IsType() {
			if _, isSig := tv.Type.Underlying().(*types.Signature); isSig {
				fun = ix.X
			}
		}
	}
	if tv, ok := fr.info.Types[fun]; ok {
		if tv.IsType() {
			x.evalConversion(call, tv.Type, st, fr, k)
			return
		}
		if tv.IsBuiltin() {
			x.evalBuiltin(call, fun, st, fr, k)
			return
		}
	}
	// resolve static callee
	var obj *types.Func
	var recvExpr ast.Expr
	switch f := fun.(type) {
	case *ast.Ident:
		switch o := fr.info.Uses[f].(type) {
		case *types.Func:
			obj = o
		case *types.Var:
			// call of a function-typed variable
			x.callFuncValue(call, o, st, fr, k)
			return
		}
	case *ast.SelectorExpr:
		if sel := fr.info.Selections[f]; sel != nil {
			switch sel.Kind() {
			case types.MethodVal:
				obj = sel.Obj().(*types.Func)
				recvExpr = f.X
			case types.FieldVal:
				// call of a function-typed field
				x.eval(f, st, fr, func(st *St, fv *Val) { x.callValue(call, fv, st, fr, k) })
				return
			}
		} else if o, ok := fr.info.Uses[f.Sel].(*types.Func); ok {
			obj = o // qualified function pkg.F
		}
	case *ast.FuncLit:
		x.evalArgs(call.Args, st, fr, func(st *St, args []*Val) {
			x.inlineLit(&FnVal{Lit: f, Owner: fr}, args, call, st, fr, k)
		})
		return
	}
	if obj == nil {
		// e.g. call of the result of a call: f(w)(x)
		x.eval(fun, st, fr, func(st *St, fv *Val) { x.callValue(call, fv, st, fr, k) })
		return
	}
	if recvExpr != nil {
		x.eval(recvExpr, st, fr, func(st *St, recv *Val) {
			// methods promoted through embedded fields: walk the implicit field path
			if se, ok := fun.(*ast.SelectorExpr); ok {
				if sel := fr.info.Selections[se]; sel != nil && len(sel.Index()) > 1 {
					curTy := fr.typeOf(recvExpr)
					for _, ix := range sel.Index()[:len(sel.Index())-1] {
						sty, ok := derefType(curTy).Underlying().(*types.Struct)
						if !ok {
							oos("promoted method through non-struct at %s", x.W.pos(call.Pos()))
						}
						f := sty.Field(ix)
						recv = x.selectField(st, recv, f.Name(), nil, func(r *Term) {
							x.safety(st, fr, Neq(r, Null), "nil", se.Sel.Pos())
						})
						curTy = f.Type()
					}
				}
			}
			x.evalArgs(call.Args, st, fr, func(st *St, args []*Val) {
				x.callFunc(call, obj, recv, args, st, fr, k)
			})
		})
		return
	}
	x.evalArgs(call.Args, st, fr, func(st *St, args []*Val) {
		x.callFunc(call, obj, nil, args, st, fr, k)
	})
}

func (x *Exec) callFuncValue(call *ast.CallExpr, v *types.Var, st *St, fr *Frame, k kval) {
	fv, ok := st.vars[v]
	if !ok {
		oos("call of unknown function variable %s at %s", v.Name(), x.W.pos(call.Pos()))
	}
	x.callValue(call, fv, st, fr, k)
}

func (x *Exec) callValue(call *ast.CallExpr, fv *Val, st *St, fr *Frame, k kval) {
	if fv.Fn == nil {
		x.callOpaque(call, fv, st, fr, k)
		return
	}
	x.evalArgs(call.Args, st, fr, func(st *St, args []*Val) {
		switch {
		case fv.Fn.Lit != nil:
			x.inlineLit(fv.Fn, args, call, st, fr, k)
		case fv.Fn.Obj != nil:
			x.callFunc(call, fv.Fn.Obj, fv.Fn.Recv, args, st, fr, k)
		}
	})
}

// packVariadic packs surplus arguments of a variadic call into a slice value.
func (x *Exec) packVariadic(sig *types.Signature, call *ast.CallExpr, args []*Val, st *St) []*Val {
	if !sig.Variadic() || call.Ellipsis.IsValid() {
		return args
	}
	np := sig.Params().Len()
	vt := sig.Params().At(np - 1).Type()
	s, ok := x.W.SortOf(vt)
	if !ok {
		oos("variadic parameter of unsupported type %s", vt)
	}
	acc := SeqEmpty(s)
	proto := ""
	for i, a := range args[np-1:] {
		acc = SeqPush(acc, x.coerce(st, a, vt.(*types.Slice).Elem()).T)
		// channels packed into a variadic parameter: the slice carries a protocol when every element carries it
		switch {
		case a == nil || !strings.HasPrefix(a.Proto, "chan.") || len(a.Subj) > 0:
			proto = "-"
		case i == 0:
			proto = a.Proto
		case proto != a.Proto:
			proto = "-"
		}
	}
	out := append([]*Val(nil), args[:np-1]...)
	pv := &Val{T: acc, Ty: vt}
	if strings.HasPrefix(proto, "chan.") {
		pv.Proto = "chans." + strings.TrimPrefix(proto, "chan.")
	}
	return append(out, pv)
}

// callFunc calls a statically known function or method.
func (x *Exec) callFunc(call *ast.CallExpr, obj *types.Func, recv *Val, args []*Val, st *St, fr *Frame, k kval) {
	sig := obj.Type().(*types.Signature)
	args = x.packVariadic(sig, call, args, st)
	if recv != nil {
		if _, isIface := sig.Recv().Type().Underlying().(*types.Interface); isIface {
			x.callInterface(call, obj, recv, args, st, fr, k)
			return
		}
		if tp, isTP := recv.Ty.(*types.TypeParam); isTP {
			_ = tp
			x.callInterface(call, obj, recv, args, st, fr, k)
			return
		}
	}
	key := KeyOfFunc(obj)
	if key == "iter.Pull2" {
		x.pull2(call, args, st, fr, k)
		return
	}
	if key == "fs.WalkDir" && !x.pure {
		x.walkDir(call, args, st, fr, k)
		return
	}
	c := x.W.CS.ByKey[key]
	fi := x.W.ByObj[obj.Origin()]
	if inst := x.callInstance(call, obj, recv, fr); inst != "" {
		if ic, ok := x.W.CS.ByKey[key+"["+inst+"]"]; ok {
			c = ic
		}
	}
	if sf, ok := x.W.Specs[key]; ok && fi != nil && fi.IsSpec {
		var v *Val
		if !x.pure && x.W.SameSCC(x.Fn.Key, key) {
			_, pnames := x.paramNames(nil, obj, fi)
			names := map[string]*Val{}
			for i, a := range args {
				if i < len(pnames) {
					names[pnames[i]] = a
				}
			}
			x.checkDecreases(st, x.W.CS.ByKey[key], &CEnv{X: x, Names: names, St: st, Pkg: fi.Pkg}, x.W.pos(call.Pos()))
		}
		x.wrapCfail("application of "+key, func() { v = x.applySpec(sf, st, args, nil, nil) })
		k(st, v)
		return
	}
	if recv != nil && recv.T != nil && recv.T.Sort == SRef {
		// the method body dereferences the receiver; calls on nil receivers are flagged at the call site unless the callee's contract admits nil
		if fi == nil && (c == nil || !c.Flags["nilrecv"]) {
			x.safety(st, fr, Neq(recv.T, Null), "nil", call.Lparen)
		}
	}
	switch {
	case c != nil && !(c.Flags["inline"] || c.Flags["helper"]) || (c != nil && fi == nil):
		if key == "fmt.Errorf" && !x.pure {
			// fmt.Errorf with a constant format that has exactly one %w verb wraps that operand: errors.Is(result, operand)
			if wi := wrapVerbOperand(call, fr); wi >= 0 {
				k0 := k
				k = func(s *St, r *Val) {
					if wi+1 < len(call.Args) && r != nil && r.T != nil {
						x.eval(call.Args[wi+1], s, fr, func(s2 *St, op *Val) {
							if op != nil && op.T != nil && op.T.Sort == SRef {
								x.W.BG.Funs["logic.errIs"] = FunSig{Name: "logic.errIs", Args: []Sort{SRef, SRef}, Res: SBool}
								x.assume(s2, App("logic.errIs", SBool, r.T, op.T))
							}
							k0(s2, r)
						})
						return
					}
					k0(s, r)
				}
			}
		}
		x.callContract(call, c, obj, fi, recv, args, st, fr, k)
	case fi != nil:
		x.inlineDecl(fi, recv, args, call, st, fr, k)
	default:
		oos("call of %s without a trusted contract at %s", key, x.W.pos(call.Pos()))
	}
}

// checkDecreases emits the termination obligation of a recursive call (callee contract c, callee parameters bound in env).
func (x *Exec) checkDecreases(st *St, c *Contract, env *CEnv, pos string) {
	if x.measure0 == nil {
		x.NoTermination = true
		return
	}
	if c == nil || c.Decreases == nil {
		x.emit(st, oblTemplate{kind: "decreases", label: "recursion", clause: "callee in the same recursion group has no decreases clause", pos: pos,
			name: x.Fn.Key + "/decreases#recursion"}, nil, False)
		return
	}
	var m1 []measureComp
	x.wrapCfail("decreases of "+c.Key, func() { m1 = x.measureOf(c, env) })
	x.emit(st, oblTemplate{kind: "decreases", label: "recursion", clause: c.Decreases.Text, pos: pos,
		name: x.Fn.Key + "/decreases#recursion"}, nil, decreasesGoal(m1, x.measure0))
}

// callInstance names the type instance of a call of a generic function or of a method of a generic type.
func (x *Exec) callInstance(call *ast.CallExpr, obj *types.Func, recv *Val, fr *Frame) string {
	var ta types.Type
	sig := obj.Type().(*types.Signature)
	if obj.Origin().Type().(*types.Signature).TypeParams().Len() > 0 {
		var id *ast.Ident
		switch f := ast.Unparen(call.Fun).(type) {
		case *ast.Ident:
			id = f
		case *ast.IndexExpr:
			id, _ = ast.Unparen(f.X).(*ast.Ident)
		}
		if id != nil {
			if in, ok := fr.info.Instances[id]; ok && in.TypeArgs.Len() > 0 {
				ta = in.TypeArgs.At(0)
			}
		}
	} else if sig.Recv() != nil && recv != nil && recv.Ty != nil {
		if n, ok := derefType(recv.Ty).(*types.Named); ok && n.TypeArgs().Len() > 0 {
			ta = n.TypeArgs().At(0)
		}
	}
	if ta == nil {
		return ""
	}
	ta = fr.subst(ta)
	if n, ok := derefType(ta).(*types.Named); ok {
		return n.Obj().Name()
	}
	return ""
}

// implementers returns the named types of the repository that implement iface and carry method name.
func (x *Exec) implementers(iface *types.Interface, method string, pkg *types.Package) []*types.Named {
	var out []*types.Named
	for _, p := range x.W.Main {
		sc := p.Types.Scope()
		for _, nm := range sc.Names() {
			tn, ok := sc.Lookup(nm).(*types.TypeName)
			if !ok || tn.IsAlias() {
				continue
			}
			n, ok := tn.Type().(*types.Named)
			if !ok {
				continue
			}
			if _, isIface := n.Underlying().(*types.Interface); isIface {
				continue
			}
			var inst types.Type = n
			if n.TypeParams().Len() > 0 {
				// generic: consider the method set shape only
				o, _, _ := types.LookupFieldOrMethod(types.NewPointer(n), true, p.Types, method)
				if _, ok := o.(*types.Func); ok && iface.NumMethods() > 0 {
					// accept if all interface methods exist by name
					all := true
					for i := 0; i < iface.NumMethods(); i++ {
						o2, _, _ := types.LookupFieldOrMethod(types.NewPointer(n), true, p.Types, iface.Method(i).Name())
						f2, isFn := o2.(*types.Func)
						if !isFn {
							all = false
							continue
						}
						// same number of parameters and results (the types may mention the type parameter)
						s1, s2 := iface.Method(i).Type().(*types.Signature), f2.Type().(*types.Signature)
						if s1.Params().Len() != s2.Params().Len() || s1.Results().Len() != s2.Results().Len() || s1.Variadic() != s2.Variadic() {
							all = false
						}
					}
					if all {
						out = append(out, n)
					}
				}
				continue
			}
			if types.Implements(types.NewPointer(inst), iface) || types.Implements(inst, iface) {
				out = append(out, n)
			}
		}
	}
	sort.Slice(out, func(i, j int) bool { return out[i].Obj().Name() < out[j].Obj().Name() })
	return out
}

func (x *Exec) callInterface(call *ast.CallExpr, obj *types.Func, recv *Val, args []*Val, st *St, fr *Frame, k kval) {
	sig := obj.Type().(*types.Signature)
	var iface *types.Interface
	if tp, ok := recv.Ty.(*types.TypeParam); ok {
		iface = tp.Constraint().Underlying().(*types.Interface)
		// a substituted type parameter is a concrete type: dispatch statically
		if ct := fr.subst(recv.Ty); ct != recv.Ty {
			m, _, _ := types.LookupFieldOrMethod(ct, true, obj.Pkg(), obj.Name())
			if mf, ok := m.(*types.Func); ok {
				x.callFunc(call, mf, &Val{T: recv.T, Ty: ct}, args, st, fr, k)
				return
			}
		}
	} else {
		iface = sig.Recv().Type().Underlying().(*types.Interface)
	}
	// an interface-level contract takes precedence (trusted externals such as io.Writer)
	ikey := KeyOfFunc(obj)
	if named, ok := sig.Recv().Type().(*types.Named); ok {
		ikey = pkgShort(named.Obj().Pkg()) + "." + named.Obj().Name() + "." + obj.Name()
	}
	if c := x.W.CS.ByKey[ikey]; c != nil {
		x.safety(st, fr, Neq(recv.T, Null), "nil", call.Lparen)
		x.callContract(call, c, obj, nil, recv, args, st, fr, k)
		return
	}
	impls := x.implementers(iface, obj.Name(), obj.Pkg())
	if len(impls) == 0 {
		oos("interface call %s at %s: no implementers and no contract for %s", obj.Name(), x.W.pos(call.Pos()), ikey)
	}
	x.safety(st, fr, Neq(recv.T, Null), "nil", call.Lparen)
	// closed world: the dynamic type is one of the implementers
	var alts []*Term
	for _, n := range impls {
		alts = append(alts, Eq(mk("typeOf", SType, recv.T), x.W.TypeConst(n)))
	}
	x.assume(st, Or(alts...))
	for _, n := range impls {
		s2 := st.clone()
		x.assume(s2, Eq(mk("typeOf", SType, recv.T), x.W.TypeConst(n)))
		if s2.dead {
			continue
		}
		m, index, _ := types.LookupFieldOrMethod(types.NewPointer(n), true, n.Obj().Pkg(), obj.Name())
		mf, ok := m.(*types.Func)
		if !ok {
			oos("type %s lacks method %s", n.Obj().Name(), obj.Name())
		}
		s2.note("dynamic type of receiver is %s", n.Obj().Name())
		rv := &Val{T: recv.T, Ty: types.NewPointer(n)}
		var curTy types.Type = n
		for _, ix := range index[:len(index)-1] {
			sty := derefType(curTy).Underlying().(*types.Struct)
			f := sty.Field(ix)
			rv = x.selectField(s2, rv, f.Name(), nil, func(r *Term) { x.safety(s2, fr, Neq(r, Null), "nil", call.Lparen) })
			curTy = f.Type()
		}
		x.callFunc(call, mf, rv, args, s2, fr, k)
	}
}

// ---------- inlining ----------

func (x *Exec) inlineDecl(fi *FuncInfo, recv *Val, args []*Val, call *ast.CallExpr, st *St, fr *Frame, k kval) {
	for f := fr; f != nil; f = f.parent {
		if f.fi == fi && f.inlined {
			oos("recursive function %s has no contract (call at %s)", fi.Key, x.W.pos(call.Pos()))
		}
	}
	if fi == x.Fn && fi.Lit == nil {
		oos("recursive call of %s needs a contract", fi.Key)
	}
	if fr.depth >= maxInlineDepth {
		oos("inlining depth exceeded at %s", x.W.pos(call.Pos()))
	}
	sig := fi.Obj.Type().(*types.Signature)
	nf := &Frame{id: x.newFrameID(), fi: fi, info: fi.Pkg.TypesInfo, depth: fr.depth + 1, parent: fr, inlined: true}
	ft := fi.Decl.Type
	if fi.Decl.Recv != nil && len(fi.Decl.Recv.List) > 0 && len(fi.Decl.Recv.List[0].Names) > 0 {
		ro := nf.info.Defs[fi.Decl.Recv.List[0].Names[0]]
		if ro != nil && recv != nil {
			st.vars[ro] = recv
		}
	}
	x.bindParams(nf, ft, sig, args, st)
	st.note("inline %s (call at %s)", fi.Key, x.W.pos(call.Pos()))
	x.runBody(nf, ft, sig, fi.Decl.Body, st, k)
}

func (x *Exec) newFrameID() int { x.nframes++; return x.nframes }

func (x *Exec) bindParams(nf *Frame, ft *ast.FuncType, sig *types.Signature, args []*Val, st *St) {
	i := 0
	if ft.Params != nil {
		for _, fld := range ft.Params.List {
			if len(fld.Names) == 0 {
				i++
				continue
			}
			for _, nm := range fld.Names {
				if o := nf.info.Defs[nm]; o != nil && i < len(args) {
					st.vars[o] = x.coerce(st, args[i], o.Type())
				}
				i++
			}
		}
	}
	if ft.Results != nil {
		for _, fld := range ft.Results.List {
			for _, nm := range fld.Names {
				if o, ok := nf.info.Defs[nm].(*types.Var); ok {
					st.vars[o] = x.zeroVal(o.Type())
					nf.results = append(nf.results, o)
				}
			}
		}
	}
}

// runBody executes a function body in frame nf and passes the result value to k.
func (x *Exec) runBody(nf *Frame, ft *ast.FuncType, sig *types.Signature, body *ast.BlockStmt, st *St, k kval) {
	finish := func(st *St, vals []*Val) {
		// deferred calls, LIFO
		ds := st.defers[nf.id]
		delete(st.defers, nf.id)
		var run func(i int, st *St)
		run = func(i int, st *St) {
			if i < 0 {
				if len(ds) > 0 && len(nf.results) == len(vals) && len(vals) > 0 {
					// named results: a deferred function may have assigned them after the return statement set them
					vals = append([]*Val(nil), vals...)
					for j, r := range nf.results {
						if v, ok := st.vars[r]; ok && v != nil {
							vals[j] = v
						}
					}
				}
				switch len(vals) {
				case 0:
					k(st, &Val{})
				case 1:
					k(st, vals[0])
				default:
					k(st, &Val{Tuple: vals})
				}
				return
			}
			x.eval(ds[i].call, st, ds[i].fr, func(st *St, _ *Val) { run(i-1, st) })
		}
		run(len(ds)-1, st)
	}
	nf.ret = func(st *St, vals []*Val) {
		if len(vals) == 0 && len(nf.results) > 0 {
			for _, r := range nf.results {
				vals = append(vals, st.vars[r])
			}
		}
		// coerce to result types
		for i := range vals {
			if i < sig.Results().Len() {
				vals[i] = x.coerce(st, vals[i], nf.subst(sig.Results().At(i).Type()))
			}
		}
		if len(nf.results) == len(vals) {
			// a return statement assigns the named results before the deferred calls run
			for j, r := range nf.results {
				st.vars[r] = vals[j]
			}
		}
		finish(st, vals)
	}
	x.block(body.List, st, nf, func(st *St) {
		// fell off the end
		nf.ret(st, nil)
	})
}

func (x *Exec) inlineLit(fv *FnVal, args []*Val, call *ast.CallExpr, st *St, fr *Frame, k kval) {
	if fr.depth >= maxInlineDepth {
		oos("inlining depth exceeded at %s", x.W.pos(call.Pos()))
	}
	owner := fv.Owner
	if owner == nil {
		owner = fr
	}
	sig := owner.info.TypeOf(fv.Lit).(*types.Signature)
	nf := &Frame{id: x.newFrameID(), fi: owner.fi, info: owner.info, depth: fr.depth + 1, parent: owner, inlined: true}
	if ord, ok := owner.fi.Lits[fv.Lit]; ok {
		// the literal's own numbering of loops and nested literals (F#n#k), as when it is verified as a unit
		if cfi := x.W.closureInfo(fmt.Sprintf("%s#%d", owner.fi.Key, ord)); cfi != nil && cfi.Lit == fv.Lit {
			nf.fi = cfi
		}
	}
	x.bindParams(nf, fv.Lit.Type, sig, x.packVariadic(sig, call, args, st), st)
	st.note("inline closure (call at %s)", x.W.pos(call.Pos()))
	x.runBody(nf, fv.Lit.Type, sig, fv.Lit.Body, st, k)
}

// ---------- call by contract ----------

func (x *Exec) paramNames(c *Contract, obj *types.Func, fi *FuncInfo) (recvName string, names []string) {
	sig := obj.Type().(*types.Signature)
	if fi != nil && fi.Decl != nil {
		if fi.Decl.Recv != nil && len(fi.Decl.Recv.List) > 0 && len(fi.Decl.Recv.List[0].Names) > 0 {
			recvName = fi.Decl.Recv.List[0].Names[0].Name
		}
		for _, fld := range fi.Decl.Type.Params.List {
			if len(fld.Names) == 0 {
				names = append(names, "_")
			}
			for _, nm := range fld.Names {
				names = append(names, nm.Name)
			}
		}
		return
	}
	if len(c.Params) > 0 {
		ps := c.Params
		if sig.Recv() != nil {
			recvName = ps[0]
			ps = ps[1:]
		}
		return recvName, ps
	}
	if sig.Recv() != nil {
		recvName = sig.Recv().Name()
	}
	for i := 0; i < sig.Params().Len(); i++ {
		names = append(names, sig.Params().At(i).Name())
	}
	return
}

func resultNames(sig *types.Signature, fi *FuncInfo) []string {
	n := sig.Results().Len()
	out := make([]string, n)
	for i := 0; i < n; i++ {
		out[i] = fmt.Sprintf("result%d", i)
	}
	return out
}

// modTargets evaluates a contract's modifies items in env: whole fields/ghosts and locations.
type modTarget struct {
	key string
	loc *Term // nil: whole field (or ghost variable)
}

func (x *Exec) modTargets(c *Contract, env *CEnv) []modTarget {
	var out []modTarget
	for _, m := range c.Modifies {
		out = append(out, x.modTarget(m, env)...)
	}
	return out
}

func (x *Exec) modTarget(m *ModItem, env *CEnv) []modTarget {
	w := x.W
	e := m.Expr
	// ghost variable
	if e.Kind == "ident" {
		if g, ok := w.GhostVars[e.Op]; ok {
			return []modTarget{{key: g.Key}}
		}
		if e.Op == "alloc" {
			return nil
		}
	}
	if e.Kind != "sel" {
		cfail("bad modifies item %s", m.Text)
	}
	// collect path
	var path []string
	cur := e
	for cur.Kind == "sel" {
		path = append([]string{cur.Op}, path...)
		cur = cur.Args[0]
	}
	// Type.field... (whole field) if the root identifier is a type name and not a variable
	if cur.Kind == "ident" {
		isGlobal := false
		if _, isVar := env.lookupName(cur.Op); !isVar && env.Pkg != nil {
			if o, ok := env.Pkg.Types.Scope().Lookup(cur.Op).(*types.Var); ok && o != nil {
				isGlobal = true
			}
		}
		if _, isVar := env.lookupName(cur.Op); !isVar && !isGlobal {
			tyText := cur.Op
			rest := path
			// qualified type pkg.Type
			if ty, ok := w.parseTypeText(tyText, env.Pkg); ok {
				return x.fieldKeysUnder(ty, strings.Join(rest, "."), nil)
			}
			if len(path) >= 2 {
				if ty, ok := w.parseTypeText(cur.Op+"."+path[0], env.Pkg); ok {
					return x.fieldKeysUnder(ty, strings.Join(path[1:], "."), nil)
				}
			}
			if strings.Contains(w.Tags, "tinywasm") {
				// a contract shared by both build variants may name a type that only the default build has (the
				// pipeline types); in the tinywasm load such an item names nothing, which only removes a permission
				return nil
			}
			cfail("modifies: unknown type or variable %s", cur.Op)
		}
	}
	// location: base expression is everything but the trailing field path inside the struct
	// find the longest prefix that evaluates to a reference
	baseExpr := e.Args[0]
	fieldPath := []string{e.Op}
	for {
		bv := env.tr(baseExpr)
		if bv.T != nil && bv.T.Sort == SRef {
			return x.fieldKeysUnder(derefType(bv.Ty), strings.Join(fieldPath, "."), bv.T)
		}
		if bv.HBase != nil {
			return x.fieldKeysUnder(bv.HStruct, bv.HPath+"."+strings.Join(fieldPath, "."), bv.HBase)
		}
		if baseExpr.Kind != "sel" {
			cfail("modifies: %s is not a location", m.Text)
		}
		fieldPath = append([]string{baseExpr.Op}, fieldPath...)
		baseExpr = baseExpr.Args[0]
	}
}

// fieldKeysUnder lists the leaf field keys of struct type ty below path (path may name a struct-valued field).
func (x *Exec) fieldKeysUnder(ty types.Type, path string, loc *Term) []modTarget {
	w := x.W
	ty = derefType(ty)
	// ghost field
	if g, ok := w.Fields[w.StructKey(ty)+"."+path]; ok && g.Ghost {
		return []modTarget{{key: g.Key, loc: loc}}
	}
	cur := ty
	for _, seg := range strings.Split(path, ".") {
		sty, ok := cur.Underlying().(*types.Struct)
		if !ok {
			cfail("modifies: %s is not a struct", cur)
		}
		found := false
		for i := 0; i < sty.NumFields(); i++ {
			if sty.Field(i).Name() == seg {
				cur = sty.Field(i).Type()
				found = true
			}
		}
		if !found {
			cfail("modifies: no field %s in %s", seg, w.StructKey(ty))
		}
	}
	var out []modTarget
	var walk func(t types.Type, p string)
	walk = func(t types.Type, p string) {
		if sty, ok := isStructVal(t); ok {
			for i := 0; i < sty.NumFields(); i++ {
				if _, ok := x.supported(sty.Field(i).Type()); ok {
					walk(sty.Field(i).Type(), p+"."+sty.Field(i).Name())
				}
			}
			return
		}
		if f, ok := w.Field(ty, p, t); ok {
			out = append(out, modTarget{key: f.Key, loc: loc})
		}
	}
	walk(cur, path)
	return out
}

func (x *Exec) callContract(call *ast.CallExpr, c *Contract, obj *types.Func, fi *FuncInfo, recv *Val, args []*Val, st *St, fr *Frame, k kval) {
	if x.pure && x.heapVars != nil {
		// the body of a spec function is turned into a definitional axiom: the result of a call by contract would be
		// a constant that does not depend on the arguments
		oos("spec function %s calls %s by contract", x.Fn.Key, c.Key)
	}
	sig := obj.Type().(*types.Signature)
	recvName, pnames := x.paramNames(c, obj, fi)
	names := map[string]*Val{}
	if recv != nil && recvName != "" {
		names[recvName] = recv
	}
	for i, a := range args {
		if i < len(pnames) && pnames[i] != "_" {
			pt := sig.Params().At(min(i, sig.Params().Len()-1)).Type()
			names[pnames[i]] = x.coerce(st, a, fr.subst(pt))
		}
	}
	for _, pn := range sortedKeys(c.ParamSubj) {
		// the names the callee's contract gives to the subjects of a stream argument
		v := names[pn]
		want := x.W.protoOf(c.ParamProto[pn])
		sc := x.W.CS.ByKey[want]
		refined := v != nil && v.Proto != want && x.W.protoCompatible(v.Proto, want)
		for i, sn := range c.ParamSubj[pn] {
			if refined {
				// a stream value of a refining stream: seen as the refined stream its subjects are nil
				names[sn] = x.nullSubject(sc, i)
			} else if v != nil && i < len(v.Subj) && v.Subj[i] != nil {
				names[sn] = v.Subj[i]
			} else {
				x.wrapCfail("subjects of argument "+pn, func() { names[sn] = x.freshSubject(st, sc, i, sn) })
			}
		}
	}
	for pn, proto := range c.ParamProto {
		if v, ok := names[pn]; ok && v != nil && !x.W.protoCompatible(v.Proto, x.W.protoOf(proto)) {
			pos := x.W.pos(call.Pos())
			x.emit(st, oblTemplate{kind: "proto", label: pn, pos: pos, clause: "argument " + pn + " obeys protocol " + proto,
				name: x.Fn.Key + "/call#" + c.Key + "/proto#" + pn}, nil, False)
		}
	}
	var pkg = x.Fn.Pkg
	if fi != nil {
		pkg = fi.Pkg
	}
	short := c.Key
	pos := x.W.pos(call.Pos())
	pre := st.clone()
	env := &CEnv{X: x, Names: names, St: st, Pkg: pkg}
	if len(c.Carries) > 0 {
		// the protocol of a channel travels with the argument value
		for i, a := range args {
			if i < len(pnames) && a != nil && names[pnames[i]] != nil && strings.HasPrefix(a.Proto, "chan.") {
				cp := *names[pnames[i]]
				cp.Proto, cp.Subj = a.Proto, a.Subj
				names[pnames[i]] = &cp
			}
		}
		x.checkCarries(c, names, env, st, "call#"+short, pos)
	}
	x.wrapCfail("precondition of "+c.Key, func() {
		for _, r := range c.Requires {
			x.emit(st, oblTemplate{kind: "pre", label: r.Label, clause: r.Text, props: r.Props, pos: pos,
				name: x.Fn.Key + "/call#" + short + "/pre#" + r.Label}, nil, env.Formula(r.Expr))
		}
	})
	nowf := c.Flags["nowf"] || c.Flags["helper"] || c.Flags["pure"] || c.Kind == "trusted" || fi == nil
	if !nowf {
		x.assertWF(st, "call#"+short, pos)
	}
	// termination of recursion
	if fi != nil && x.W.SameSCC(x.Fn.Key, fi.Key) {
		x.checkDecreases(st, c, env, pos)
	}
	// havoc the frame
	var targets []modTarget
	x.wrapCfail("modifies of "+c.Key, func() { targets = x.modTargets(c, env) })
	// allocation may happen in any callee that is not pure
	if !c.Flags["pure"] {
		x.havocAlloc(st)
	}
	for _, t := range targets {
		x.havocTarget(st, t, call.Pos())
	}
	// results
	var rvals []*Val
	rn := resultNames(sig, fi)
	post := map[string]*Val{}
	for kx, v := range names {
		post[kx] = v
	}
	for i := 0; i < sig.Results().Len(); i++ {
		rt := fr.subst(sig.Results().At(i).Type())
		rv := x.freshVal(st, "ret."+obj.Name(), rt)
		if rv.T != nil && rv.T.Sort == SRef {
			x.assume(st, Or(Eq(rv.T, Null), Select(st.alloc(), rv.T)))
		}
		if i == 0 && c.Yields != "" {
			rv.Proto = x.W.protoOf(c.Yields)
			x.wrapCfail("subjects of "+c.Key, func() {
				for _, e := range c.YieldsArgs {
					rv.Subj = append(rv.Subj, env.tr(e))
				}
			})
		}
		if p, ok := c.ParamProto[fmt.Sprintf("result%d", i)]; ok {
			rv.Proto = x.W.protoOf(p)
		}
		x.carriedResult(c, i, rv, env)
		rvals = append(rvals, rv)
		post[rn[i]] = rv
		if i == 0 {
			post["result"] = rv
		}
		// named results of the declaration
		if fi != nil && fi.Decl != nil && fi.Decl.Type.Results != nil {
			j := 0
			for _, fld := range fi.Decl.Type.Results.List {
				for _, nm := range fld.Names {
					if j == i {
						post[nm.Name] = rv
					}
					j++
				}
				if len(fld.Names) == 0 {
					j++
				}
			}
		}
	}
	oldEnv := &CEnv{X: x, Names: names, St: pre, Pkg: pkg}
	penv := &CEnv{X: x, Names: post, St: st, Pkg: pkg, Old: oldEnv}
	x.applyGhostSets(st, c, penv)
	x.wrapCfail("postcondition of "+c.Key, func() {
		for _, e := range c.Ensures {
			x.assume(st, penv.HypFormula(e.Expr))
		}
	})
	if !nowf {
		x.assumeWF(st)
	} else if c.HasMod && len(targets) > 0 {
		// heap changed by a helper: WF no longer known unless untouched fields
	}
	st.note("call %s by contract at %s", c.Key, pos)
	if st.dead {
		return
	}
	switch len(rvals) {
	case 0:
		k(st, &Val{})
	case 1:
		k(st, rvals[0])
	default:
		k(st, &Val{Tuple: rvals})
	}
}

// applyGhostSets performs the ghost updates a contract declares for the return of its function.
func (x *Exec) applyGhostSets(st *St, c *Contract, env *CEnv) {
	if len(c.GhostSets) == 0 {
		return
	}
	x.wrapCfail("ghostset of "+c.Key, func() {
		// all right-hand sides are evaluated before any update
		vals := make([]*Term, len(c.GhostSets))
		for i, gs := range c.GhostSets {
			// a right-hand side that cannot be evaluated here (it names a local of the callee, or a local that does not exist
			// on this return path) leaves the ghost variable unconstrained: only the postconditions speak about it
			func() {
				defer func() {
					if r := recover(); r != nil {
						if _, ok := r.(ctransErr); !ok {
							panic(r)
						}
						if g, ok := x.W.GhostVars[gs.Var]; ok {
							vals[i] = x.fresh(g.Key+".any", g.Sort)
						}
					}
				}()
				vals[i] = env.tr(gs.Expr).T
			}()
		}
		for i, gs := range c.GhostSets {
			g, ok := x.W.GhostVars[gs.Var]
			if !ok {
				cfail("ghostset: unknown ghost variable %s", gs.Var)
			}
			if vals[i] == nil || vals[i].Sort != g.Sort {
				cfail("ghostset %s: value has the wrong sort", gs.Var)
			}
			x.checkWrite(st, g.Key, Null, 0)
			nw := x.fresh(g.Key, g.Sort)
			x.assume(st, Eq(nw, vals[i]))
			st.heap[g.Key] = nw
		}
	})
}

func (x *Exec) wrapCfail(what string, f func()) {
	defer func() {
		if r := recover(); r != nil {
			if ce, ok := r.(ctransErr); ok {
				panic(outOfSubset{what + ": " + ce.msg})
			}
			panic(r)
		}
	}()
	f()
}

func (x *Exec) havocTarget(st *St, t modTarget, p token.Pos) {
	w := x.W
	if strings.HasPrefix(t.key, "$g.") {
		g := w.GhostVars[strings.TrimPrefix(t.key, "$g.")]
		x.checkWrite(st, t.key, Null, p)
		st.heap[t.key] = x.fresh(t.key, g.Sort)
		return
	}
	f := w.Fields[t.key]
	old := st.field(f)
	nw := x.fresh(t.key, old.Sort)
	if t.loc != nil {
		x.checkWrite(st, t.key, t.loc, p)
		v := x.fresh(t.key+".val", f.Sort)
		if isUnsigned(f.Ty) {
			x.assume(st, Cmp(">=", v, IntLit(0)))
		}
		x.assume(st, Eq(nw, Store(old, t.loc, v)))
		st.heap[t.key] = nw
		x.heapTyping(st, f, nw)
	} else {
		x.checkWriteAll(st, t.key, p)
		x.heapTyping(st, f, nw)
	}
	st.heap[t.key] = nw
}

func (x *Exec) checkWriteAll(st *St, key string, p token.Pos) {
	if x.pure || x.frameAll == nil || x.frameAll[key] {
		return
	}
	pos := ""
	if p.IsValid() {
		pos = x.W.posCol(p)
	}
	x.emit(st, oblTemplate{kind: "frame", label: key, pos: pos, clause: "callee may modify all of " + key + ", which the modifies clause does not permit"}, nil, False)
}

func (x *Exec) havocAlloc(st *St) {
	old := st.alloc()
	nw := x.fresh("$alloc", old.Sort)
	r := Var("r$", SRef)
	x.assume(st, Forall([]*Term{r}, [][]*Term{{Select(nw, r)}, {Select(old, r)}}, Implies(Select(old, r), Select(nw, r)), "alloc_mono"))
	st.heap["$alloc"] = nw
}

// heapTyping assumes language-level facts about a (new) field array: unsigned ranges, references stored are allocated.
func (x *Exec) heapTyping(st *St, f *FieldInfo, arr *Term) {
	r := Var("r$", SRef)
	if isUnsigned(f.Ty) && f.Sort == SInt {
		x.assume(st, Forall([]*Term{r}, [][]*Term{{Select(arr, r)}}, Cmp(">=", Select(arr, r), IntLit(0)), "uint_"+f.Key))
	}
	al := st.alloc()
	switch f.Sort {
	case SRef:
		v := Select(arr, r)
		x.assume(st, Forall([]*Term{r}, [][]*Term{{v}}, Or(Eq(v, Null), Select(al, v)), "closed_"+f.Key))
	case SSeqRef:
		i := Var("i$", SInt)
		v := SeqAt(Select(arr, r), i)
		x.assume(st, Forall([]*Term{r, i}, [][]*Term{{v}}, Implies(And(Cmp("<=", IntLit(0), i), Cmp("<", i, SeqLen(Select(arr, r)))), Or(Eq(v, Null), Select(al, v))), "closed_"+f.Key))
	}
}

// heapTypingAll states the language-level facts for every field array of the current state.
func (x *Exec) heapTypingAll(st *St) {
	for _, k := range x.W.FieldOrder {
		f := x.W.Fields[k]
		if f.Sort == SRef || f.Sort == SSeqRef || (isUnsigned(f.Ty) && f.Sort == SInt) {
			x.heapTyping(st, f, st.field(f))
		}
	}
}

// callOpaque: call of an unknown function value (callback / yield parameters) — handled by protocols.
func (x *Exec) callOpaque(call *ast.CallExpr, fv *Val, st *St, fr *Frame, k kval) {
	x.callProtocol(call, fv, st, fr, k)
}

// wrapVerbOperand: for a call fmt.Errorf(format, operands...) with a constant format string that contains exactly one
// %w verb, the index (among the operands) of the operand that verb formats; -1 otherwise.
func wrapVerbOperand(call *ast.CallExpr, fr *Frame) int {
	if len(call.Args) == 0 || call.Ellipsis.IsValid() {
		return -1
	}
	tv, ok := fr.info.Types[call.Args[0]]
	if !ok || tv.Value == nil || tv.Value.Kind() != constant.String {
		return -1
	}
	f := constant.StringVal(tv.Value)
	verb, found := 0, -1
	for i := 0; i < len(f); i++ {
		if f[i] != '%' {
			continue
		}
		i++
		// flags, width, precision (no '*' or argument indexes: give up on those)
		for i < len(f) && strings.ContainsRune("+-# 0123456789.", rune(f[i])) {
			i++
		}
		if i >= len(f) {
			break
		}
		switch f[i] {
		case '%':
			continue
		case '*', '[':
			return -1
		case 'w':
			if found >= 0 {
				return -1
			}
			found = verb
		}
		verb++
	}
	return found
}
