package gvc

import (
	"fmt"
	"go/ast"
	"go/types"
	"strings"
)

// Val is a symbolic Go value.
type Val struct {
	T      *Term
	Ty     types.Type
	Fields map[string]*Val // struct value
	Tuple  []*Val
	Fn     *FnVal
	// a struct value that lives inside a heap object (not yet materialised)
	HBase   *Term
	HStruct types.Type // the struct type owning the field arrays
	HPath   string
	Proto   string // protocol obeyed by this function value (callbacks, yield functions)
	Subj    []*Val // stream values: the subjects the producer was created for
}

// FnVal is a known function value (closure literal or method value).
type FnVal struct {
	Lit   *ast.FuncLit
	Owner *Frame
	Obj   *types.Func
	Recv  *Val
}

type deferred struct {
	call *ast.CallExpr
	fr   *Frame
}

// St is one symbolic state (one path).
type St struct {
	vars    map[types.Object]*Val
	heap    map[string]*Term // field key / ghost key -> current term
	pc      []*Term
	trace   []string
	defers  map[int][]deferred
	wfSnap  map[string]*Term // heap for which the global invariant is known to hold (nil: unknown)
	wfKnown bool
	fresh   []*Term // references allocated on this path in this activation
	wgs     []*Term // the sync.WaitGroups among them
	dead    bool
	yielded bool // closures: a value has been yielded on this path
}

func (s *St) clone() *St {
	n := &St{vars: make(map[types.Object]*Val, len(s.vars)), heap: make(map[string]*Term, len(s.heap)),
		defers: map[int][]deferred{}, wfKnown: s.wfKnown, wfSnap: s.wfSnap}
	for k, v := range s.vars {
		n.vars[k] = v
	}
	for k, v := range s.heap {
		n.heap[k] = v
	}
	n.pc = append([]*Term(nil), s.pc...)
	n.trace = append([]string(nil), s.trace...)
	for k, v := range s.defers {
		n.defers[k] = append([]deferred(nil), v...)
	}
	n.fresh = append([]*Term(nil), s.fresh...)
	n.wgs = append([]*Term(nil), s.wgs...)
	n.yielded = s.yielded
	return n
}

// chanClosedField: which channels have been closed (set by close(ch), read by chanClosed(ch) in contracts).
var chanClosedField = &FieldInfo{Key: "$chan.closed", Sort: SBool, Ghost: true}

func (s *St) field(f *FieldInfo) *Term {
	if t, ok := s.heap[f.Key]; ok {
		return t
	}
	if strings.HasPrefix(f.Key, "$g.") {
		return Var(f.Key, f.Sort)
	}
	return Var(f.Key, ArrSort(SRef, f.Sort))
}

func (s *St) note(format string, a ...any) { s.trace = append(s.trace, fmt.Sprintf(format, a...)) }

// Frame is one (possibly inlined) function activation.
type Frame struct {
	id      int
	fi      *FuncInfo
	info    *types.Info
	ret     func(st *St, vals []*Val)
	brk     func(*St)
	cont    func(*St)
	lbrk    map[string]func(*St)
	lcont   map[string]func(*St)
	depth   int
	parent  *Frame
	results []*types.Var
	inlined bool
	tsubst  map[*types.TypeParam]types.Type
	label   string // pending label for the next loop statement
}

func (f *Frame) withLoop(brk, cont func(*St), label string) *Frame {
	n := *f
	n.brk, n.cont = brk, cont
	n.label = ""
	if label != "" {
		n.lbrk = map[string]func(*St){}
		n.lcont = map[string]func(*St){}
		for k, v := range f.lbrk {
			n.lbrk[k] = v
		}
		for k, v := range f.lcont {
			n.lcont[k] = v
		}
		n.lbrk[label] = brk
		n.lcont[label] = cont
	}
	return &n
}

func (f *Frame) typeOf(e ast.Expr) types.Type {
	t := f.info.TypeOf(e)
	return f.subst(t)
}

func (f *Frame) subst(t types.Type) types.Type {
	if tp, ok := t.(*types.TypeParam); ok {
		for fr := f; fr != nil; fr = fr.parent {
			if r, ok := fr.tsubst[tp]; ok {
				return r
			}
		}
	}
	return t
}

// substAll substitutes type parameters in t using the frame chain (only the top-level type is handled).
func (fi *FuncInfo) substAll(fr *Frame, t types.Type) types.Type { return fr.subst(t) }

// outOfSubset is raised (panic) when a construct is not supported.
type outOfSubset struct{ msg string }

func oos(format string, a ...any) { panic(outOfSubset{fmt.Sprintf(format, a...)}) }
