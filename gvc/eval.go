package gvc

import (
	"fmt"
	"go/ast"
	"go/constant"
	"go/token"
	"go/types"
	"strings"
)

type kval func(*St, *Val)

// eval evaluates a Go expression in continuation-passing style (calls may split paths).
func (x *Exec) eval(e ast.Expr, st *St, fr *Frame, k kval) {
	if st.dead {
		return
	}
	// constants first
	if tv, ok := fr.info.Types[e]; ok && tv.Value != nil {
		if tv.Value.Kind() == constant.Bool || tv.Value.Kind() == constant.String || tv.Value.Kind() == constant.Int {
			k(st, constVal(tv.Value, tv.Type))
			return
		}
	}
	switch n := e.(type) {
	case *ast.ParenExpr:
		x.eval(n.X, st, fr, k)
	case *ast.BasicLit:
		oos("unsupported literal %s", n.Value)
	case *ast.Ident:
		k(st, x.evalIdent(n, st, fr))
	case *ast.SelectorExpr:
		x.evalSelector(n, st, fr, k)
	case *ast.StarExpr:
		x.eval(n.X, st, fr, func(st *St, v *Val) {
			x.safety(st, fr, Neq(v.T, Null), "nil", n.Pos())
			k(st, &Val{HBase: v.T, HStruct: derefType(v.Ty), HPath: "", Ty: derefType(v.Ty)})
		})
	case *ast.UnaryExpr:
		x.evalUnary(n, st, fr, k)
	case *ast.BinaryExpr:
		x.evalBinary(n, st, fr, k)
	case *ast.CallExpr:
		x.evalCall(n, st, fr, k)
	case *ast.IndexExpr:
		// generic instantiation f[T] is handled at the call
		x.eval(n.X, st, fr, func(st *St, a *Val) {
			x.eval(n.Index, st, fr, func(st *St, i *Val) {
				if a.T == nil {
					oos("index of unsupported value")
				}
				if _, isMap := fr.typeOf(n.X).Underlying().(*types.Map); isMap {
					k(st, &Val{Ty: types.NewStruct(nil, nil), Fields: map[string]*Val{}})
					return
				}
				if !a.T.Sort.IsSeq() {
					oos("index of non-sequence")
				}
				x.safety(st, fr, And(Cmp("<=", IntLit(0), i.T), Cmp("<", i.T, SeqLen(a.T))), "index", n.Lbrack)
				ev := &Val{T: SeqAt(a.T, i.T), Ty: fr.typeOf(n)}
				if strings.HasPrefix(a.Proto, "chans.") {
					// an element of a slice of channels carries the slice's protocol
					ev.Proto = "chan." + strings.TrimPrefix(a.Proto, "chans.")
				}
				k(st, ev)
			})
		})
	case *ast.SliceExpr:
		x.eval(n.X, st, fr, func(st *St, a *Val) {
			lo := func(st *St, k2 kval) {
				if n.Low == nil {
					k2(st, &Val{T: IntLit(0)})
					return
				}
				x.eval(n.Low, st, fr, k2)
			}
			lo(st, func(st *St, l *Val) {
				hi := func(st *St, k2 kval) {
					if n.High == nil {
						k2(st, &Val{T: SeqLen(a.T)})
						return
					}
					x.eval(n.High, st, fr, k2)
				}
				hi(st, func(st *St, h *Val) {
					if a.T == nil || !a.T.Sort.IsSeq() || n.Slice3 {
						oos("unsupported slice expression")
					}
					x.safety(st, fr, And(Cmp("<=", IntLit(0), l.T), Cmp("<=", l.T, h.T), Cmp("<=", h.T, SeqLen(a.T))), "slice", n.Lbrack)
					t := a.T
					if n.High != nil {
						t = SeqTake(t, h.T)
					}
					if n.Low != nil {
						t = SeqDrop(t, l.T)
					}
					k(st, &Val{T: t, Ty: fr.typeOf(n)})
				})
			})
		})
	case *ast.CompositeLit:
		x.evalComposite(n, st, fr, false, k)
	case *ast.FuncLit:
		v := &Val{Fn: &FnVal{Lit: n, Owner: fr}, Ty: fr.typeOf(n)}
		if ord, ok := fr.fi.Lits[n]; ok && !x.pure {
			if cc := x.W.CS.ByKey[fmt.Sprintf("%s#%d", fr.fi.Key, ord)]; cc != nil && cc.Kind == "closure" {
				// the closure has its own contract: its precondition must hold where it is created
				env := &CEnv{X: x, Names: x.localNames(st, fr, nil), St: st, Pkg: fr.fi.Pkg}
				x.wrapCfail("precondition of closure "+cc.Key, func() {
					for _, r := range cc.Requires {
						x.emit(st, oblTemplate{kind: "closure-pre", label: r.Label, clause: r.Text, props: r.Props, pos: x.W.pos(n.Pos()),
							name: x.Fn.Key + "/closure#" + fmt.Sprint(ord) + "/pre#" + r.Label}, nil, env.Formula(r.Expr))
					}
				})
				if len(cc.Defines) > 0 || cc.Implements != "" {
					// the closure value is an object of its own: its defining attributes hold of it
					v.T = x.fresh("closure", SRef)
					x.assume(st, Neq(v.T, Null))
					if cc.Implements != "" {
						v.Proto = x.W.protoOf(cc.Implements)
					}
					dn := x.localNames(st, fr, map[string]*Val{"self": v})
					denv := &CEnv{X: x, Names: dn, St: st, Pkg: fr.fi.Pkg}
					x.wrapCfail("defines of closure "+cc.Key, func() {
						for _, d := range cc.Defines {
							x.assume(st, denv.HypFormula(d.Expr))
						}
					})
				}
				if cc.Yields != "" {
					x.wrapCfail("subjects of closure "+cc.Key, func() {
						for _, e := range cc.YieldsArgs {
							v.Subj = append(v.Subj, env.tr(e))
						}
					})
					v.Proto = x.W.protoOf(cc.Yields)
					v.T = x.fresh("closure", SRef)
					x.assume(st, Neq(v.T, Null))
				}
			}
		}
		k(st, v)
	case *ast.TypeAssertExpr:
		x.eval(n.X, st, fr, func(st *St, v *Val) {
			to := fr.typeOf(n.Type)
			if _, isIface := to.Underlying().(*types.Interface); isIface {
				oos("type assertion to an interface type")
			}
			p, ok := to.Underlying().(*types.Pointer)
			if !ok {
				oos("type assertion to non-pointer type %s", to)
			}
			x.safety(st, fr, And(Neq(v.T, Null), Eq(mk("typeOf", SType, v.T), x.W.TypeConst(p.Elem()))), "typeassert", n.Lparen)
			k(st, &Val{T: v.T, Ty: to})
		})
	default:
		oos("unsupported expression %T at %s", e, x.W.pos(e.Pos()))
	}
}

// evalPure evaluates an expression that must not split paths.
func (x *Exec) evalPure(e ast.Expr, st *St, fr *Frame) *Val {
	var res *Val
	n := 0
	x.eval(e, st, fr, func(s2 *St, v *Val) {
		if s2 != st {
			oos("expression at %s unexpectedly forks", x.W.pos(e.Pos()))
		}
		res = v
		n++
	})
	if n != 1 {
		if st.dead {
			return &Val{T: nil}
		}
		oos("expression at %s evaluated %d times", x.W.pos(e.Pos()), n)
	}
	return res
}

func (x *Exec) evalIdent(id *ast.Ident, st *St, fr *Frame) *Val {
	obj := fr.info.Uses[id]
	if obj == nil {
		obj = fr.info.Defs[id]
	}
	switch o := obj.(type) {
	case *types.Nil:
		return &Val{T: Null, Ty: types.Typ[types.UntypedNil]}
	case *types.Const:
		return constVal(o.Val(), o.Type())
	case *types.Var:
		if v, ok := st.vars[o]; ok {
			return x.chanDecorate(v, o.Name(), st, fr)
		}
		if o.Parent() == o.Pkg().Scope() {
			return x.globalVal(o)
		}
		oos("variable %s has no value at %s", id.Name, x.W.pos(id.Pos()))
	case *types.Func:
		return &Val{Fn: &FnVal{Obj: o}, Ty: o.Type()}
	}
	oos("unsupported identifier %s at %s", id.Name, x.W.pos(id.Pos()))
	return nil
}

func (x *Exec) evalSelector(n *ast.SelectorExpr, st *St, fr *Frame, k kval) {
	// qualified identifier
	if id, ok := n.X.(*ast.Ident); ok {
		if _, isPkg := fr.info.Uses[id].(*types.PkgName); isPkg {
			switch o := fr.info.Uses[n.Sel].(type) {
			case *types.Var:
				k(st, x.globalVal(o))
			case *types.Const:
				k(st, constVal(o.Val(), o.Type()))
			case *types.Func:
				k(st, &Val{Fn: &FnVal{Obj: o}, Ty: o.Type()})
			default:
				oos("unsupported qualified identifier %s.%s", id.Name, n.Sel.Name)
			}
			return
		}
	}
	sel := fr.info.Selections[n]
	if sel == nil {
		oos("unresolved selector at %s", x.W.pos(n.Pos()))
	}
	x.eval(n.X, st, fr, func(st *St, base *Val) {
		switch sel.Kind() {
		case types.FieldVal:
			v := x.selectField(st, base, n.Sel.Name, nil, func(r *Term) {
				x.safety(st, fr, Neq(r, Null), "nil", n.Sel.Pos())
			})
			k(st, v)
		case types.MethodVal:
			mobj := sel.Obj().(*types.Func)
			v := &Val{Fn: &FnVal{Obj: mobj, Recv: base}, Ty: fr.typeOf(n)}
			if mv, ok := x.W.CS.MethodVals[KeyOfFunc(mobj)]; ok && !x.pure {
				// a method value of a trusted method: an opaque function value obeying the declared protocol
				v.T = x.fresh("methodvalue", SRef)
				x.assume(st, Neq(v.T, Null))
				v.Proto = x.W.protoOf(mv.Proto)
				if mv.Bind != nil {
					env := &CEnv{X: x, Names: map[string]*Val{"self": v, "recv": base}, St: st, Pkg: x.Fn.Pkg}
					x.wrapCfail("methodvalue binding", func() { x.assume(st, env.HypFormula(mv.Bind)) })
				}
			}
			k(st, v)
		default:
			oos("unsupported selection kind at %s", x.W.pos(n.Pos()))
		}
	})
}

func (x *Exec) evalUnary(n *ast.UnaryExpr, st *St, fr *Frame, k kval) {
	switch n.Op {
	case token.NOT:
		x.eval(n.X, st, fr, func(st *St, v *Val) { k(st, &Val{T: Not(v.T), Ty: v.Ty}) })
	case token.SUB:
		x.eval(n.X, st, fr, func(st *St, v *Val) { k(st, &Val{T: Arith("-", IntLit(0), v.T), Ty: v.Ty}) })
	case token.AND:
		if cl, ok := ast.Unparen(n.X).(*ast.CompositeLit); ok {
			x.evalComposite(cl, st, fr, true, k)
			return
		}
		oos("address-of is only supported on composite literals (%s)", x.W.pos(n.Pos()))
	case token.ARROW:
		x.evalRecv(n, st, fr, k)
	default:
		oos("unsupported unary operator %s", n.Op)
	}
}

func hasCall(e ast.Expr, info *types.Info) bool {
	found := false
	ast.Inspect(e, func(n ast.Node) bool {
		if c, ok := n.(*ast.CallExpr); ok {
			if tv, ok := info.Types[c.Fun]; ok && (tv.IsBuiltin() || tv.IsType()) {
				return true
			}
			found = true
		}
		if _, ok := n.(*ast.FuncLit); ok {
			return false
		}
		return !found
	})
	return found
}

func (x *Exec) evalBinary(n *ast.BinaryExpr, st *St, fr *Frame, k kval) {
	boolTy := types.Typ[types.Bool]
	if n.Op == token.LAND || n.Op == token.LOR {
		x.eval(n.X, st, fr, func(st *St, a *Val) {
			if !hasCall(n.Y, fr.info) {
				// evaluate the right operand under the guard (for its safety conditions) without forking
				guard := a.T
				if n.Op == token.LOR {
					guard = Not(a.T)
				}
				sub := st.clone()
				x.assume(sub, guard)
				var bv *Val
				if sub.dead {
					bv = &Val{T: False, Ty: boolTy}
				} else {
					nObl := len(x.Obls)
					bv = x.evalPure(n.Y, sub, fr)
					_ = nObl
				}
				if n.Op == token.LAND {
					k(st, &Val{T: And(a.T, bv.T), Ty: boolTy})
				} else {
					k(st, &Val{T: Or(a.T, bv.T), Ty: boolTy})
				}
				return
			}
			// right operand has calls: fork
			s1, s2 := st.clone(), st.clone()
			if n.Op == token.LAND {
				x.assume(s1, Not(a.T))
				if !s1.dead {
					k(s1, &Val{T: False, Ty: boolTy})
				}
				x.assume(s2, a.T)
			} else {
				x.assume(s1, a.T)
				if !s1.dead {
					k(s1, &Val{T: True, Ty: boolTy})
				}
				x.assume(s2, Not(a.T))
			}
			if !s2.dead {
				x.eval(n.Y, s2, fr, k)
			}
		})
		return
	}
	x.eval(n.X, st, fr, func(st *St, a *Val) {
		x.eval(n.Y, st, fr, func(st *St, b *Val) {
			k(st, x.binop(n, st, fr, a, b))
		})
	})
}

func (x *Exec) binop(n *ast.BinaryExpr, st *St, fr *Frame, a, b *Val) *Val {
	boolTy := types.Typ[types.Bool]
	a, b = unifyNil(a, b)
	ty := fr.typeOf(n)
	switch n.Op {
	case token.EQL:
		return &Val{T: x.valEq(st, a, b), Ty: boolTy}
	case token.NEQ:
		return &Val{T: Not(x.valEq(st, a, b)), Ty: boolTy}
	case token.LSS, token.LEQ, token.GTR, token.GEQ:
		if a.T.Sort != SInt {
			oos("ordered comparison of non-integers at %s", x.W.pos(n.Pos()))
		}
		return &Val{T: Cmp(n.Op.String(), a.T, b.T), Ty: boolTy}
	case token.ADD:
		if a.T.Sort == SStr {
			return &Val{T: SeqCat(a.T, b.T), Ty: ty}
		}
		return &Val{T: Arith("+", a.T, b.T), Ty: ty}
	case token.SUB:
		r := Arith("-", a.T, b.T)
		if isUnsigned(ty) {
			x.safety(st, fr, Cmp(">=", r, IntLit(0)), "unsigned-underflow", n.OpPos)
		}
		return &Val{T: r, Ty: ty}
	case token.MUL:
		return &Val{T: Arith("*", a.T, b.T), Ty: ty}
	case token.QUO, token.REM:
		x.safety(st, fr, Neq(b.T, IntLit(0)), "divzero", n.OpPos)
		if _, isConst := b.T.IntVal(); !isConst {
			// symbolic divisor: Go's truncated division agrees with SMT div/mod on a non-negative dividend and a positive
			// divisor; that sign condition is an obligation, and the result is then the plain SMT term (no nonlinear encoding)
			x.safety(st, fr, And(Cmp(">=", a.T, IntLit(0)), Cmp(">", b.T, IntLit(0))), "div-signs", n.OpPos)
			if n.Op == token.QUO {
				return &Val{T: mk("div", SInt, a.T, b.T), Ty: ty}
			}
			return &Val{T: mk("mod", SInt, a.T, b.T), Ty: ty}
		}
		q := goDiv(a.T, b.T)
		if n.Op == token.QUO {
			return &Val{T: q, Ty: ty}
		}
		return &Val{T: Arith("-", a.T, Arith("*", b.T, q)), Ty: ty}
	}
	oos("unsupported binary operator %s at %s", n.Op, x.W.pos(n.Pos()))
	return nil
}

// goDiv is Go's truncated integer division.
func goDiv(a, b *Term) *Term {
	return Ite(Cmp(">=", a, IntLit(0)), mk("div", SInt, a, b), Arith("-", IntLit(0), mk("div", SInt, Arith("-", IntLit(0), a), b)))
}

func (x *Exec) evalComposite(n *ast.CompositeLit, st *St, fr *Frame, addr bool, k kval) {
	ty := fr.typeOf(n)
	if p, ok := ty.Underlying().(*types.Pointer); ok {
		// elided &T in a slice/map literal of pointers
		if _, isStruct := p.Elem().Underlying().(*types.Struct); isStruct {
			ty = p.Elem()
			addr = true
		}
	}
	switch u := ty.Underlying().(type) {
	case *types.Struct:
		// evaluate the field values in order
		fields := map[string]*Val{}
		var step func(i int, st *St)
		step = func(i int, st *St) {
			if i == len(n.Elts) {
				v := &Val{Ty: ty, Fields: map[string]*Val{}}
				for j := 0; j < u.NumFields(); j++ {
					f := u.Field(j)
					if fv, ok := fields[f.Name()]; ok {
						v.Fields[f.Name()] = x.coerce(st, fv, f.Type())
					} else if _, ok := x.supported(f.Type()); ok {
						v.Fields[f.Name()] = x.zeroVal(f.Type())
					}
				}
				if addr {
					name := "obj"
					if nm, ok := ty.(*types.Named); ok {
						name = nm.Obj().Name()
					}
					r := x.allocRef(st, ty, name)
					x.initObject(st, ty, r, v)
					st.note("%s := &%s{...} at %s", r.Op, name, x.W.pos(n.Pos()))
					k(st, &Val{T: r, Ty: types.NewPointer(ty)})
					return
				}
				k(st, v)
				return
			}
			el := n.Elts[i]
			var fname string
			var ve ast.Expr
			if kv, ok := el.(*ast.KeyValueExpr); ok {
				fname = kv.Key.(*ast.Ident).Name
				ve = kv.Value
			} else {
				fname = u.Field(i).Name()
				ve = el
			}
			var fty types.Type
			for j := 0; j < u.NumFields(); j++ {
				if u.Field(j).Name() == fname {
					fty = u.Field(j).Type()
				}
			}
			if _, ok := x.supported(fty); !ok {
				// a field of an unmodelled type (func values, colours, mutexes): evaluate nothing
				if fl, isLit := ast.Unparen(ve).(*ast.FuncLit); isLit {
					fields[fname] = &Val{Fn: &FnVal{Lit: fl, Owner: fr}, Ty: fty}
				}
				step(i+1, st)
				return
			}
			// a function literal stored in a field that carries a protocol must be a closure that implements it
			if want, ok := x.W.CS.FieldProto[x.W.StructKey(ty)+"."+fname]; ok && !x.pure {
				if fl, isLit := ast.Unparen(ve).(*ast.FuncLit); isLit {
					okImpl := false
					if ord, has := fr.fi.Lits[fl]; has {
						if cc := x.W.CS.ByKey[fmt.Sprintf("%s#%d", fr.fi.Key, ord)]; cc != nil && cc.Implements == want {
							okImpl = true
						}
					}
					if !okImpl {
						x.emit(st, oblTemplate{kind: "proto", label: fname, pos: x.W.pos(fl.Pos()), clause: "the function literal stored in " + fname + " implements protocol " + want,
							name: x.Fn.Key + "/proto#" + fname}, nil, False)
					}
				}
			}
			x.eval(ve, st, fr, func(st *St, v *Val) {
				fields[fname] = v
				step(i+1, st)
			})
		}
		step(0, st)
	case *types.Slice:
		s, ok := x.W.SortOf(ty)
		if !ok {
			oos("slice literal of unsupported type %s", ty)
		}
		var step func(i int, st *St, acc *Term)
		step = func(i int, st *St, acc *Term) {
			if i == len(n.Elts) {
				k(st, &Val{T: acc, Ty: ty})
				return
			}
			if _, isKV := n.Elts[i].(*ast.KeyValueExpr); isKV {
				oos("keyed slice literal")
			}
			x.eval(n.Elts[i], st, fr, func(st *St, v *Val) {
				step(i+1, st, SeqPush(acc, x.coerce(st, v, u.Elem()).T))
			})
		}
		step(0, st, SeqEmpty(s))
	case *types.Map:
		s, ok := x.W.SortOf(ty)
		if !ok || len(n.Elts) != 0 {
			oos("map literal of unsupported type %s", ty)
		}
		_ = s
		k(st, x.newMap(st, ty))
	default:
		oos("composite literal of unsupported type %s", ty)
	}
}
