package gvc

import (
	"fmt"
	"strings"
)

// seqPrelude returns the axiomatised sequence theory for sort S with element sort E.
// Dafny/Boogie-prelude style, E-matching triggers only.
func seqPrelude(S, E Sort) string {
	r := strings.NewReplacer("$S", string(S), "$E", string(E))
	return r.Replace(`
; ---- sequences $S of $E
(declare-sort $S 0)
(declare-fun len.$S ($S) Int)
(declare-fun at.$S ($S Int) $E)
(declare-fun empty.$S () $S)
(declare-fun unit.$S ($E) $S)
(declare-fun cat.$S ($S $S) $S)
(declare-fun take.$S ($S Int) $S)
(declare-fun drop.$S ($S Int) $S)
(declare-fun eq.$S ($S $S) Bool)
(declare-fun contains.$S ($S $E) Bool)
(declare-fun idx.$S ($S $E) Int)
(assert (forall ((s $S)) (! (>= (len.$S s) 0) :pattern ((len.$S s)) :qid len_nonneg.$S)))
(assert (= (len.$S empty.$S) 0))
(assert (forall ((s $S)) (! (=> (= (len.$S s) 0) (= s empty.$S)) :pattern ((len.$S s)) :qid len0_empty.$S)))
(assert (forall ((e $E)) (! (and (= (len.$S (unit.$S e)) 1) (= (at.$S (unit.$S e) 0) e)) :pattern ((unit.$S e)) :qid unit.$S)))
(assert (forall ((a $S) (b $S)) (! (= (len.$S (cat.$S a b)) (+ (len.$S a) (len.$S b))) :pattern ((cat.$S a b)) :qid cat_len.$S)))
(assert (forall ((a $S) (b $S) (i Int)) (! (and (=> (and (<= 0 i) (< i (len.$S a))) (= (at.$S (cat.$S a b) i) (at.$S a i)))
                                               (=> (<= (len.$S a) i) (= (at.$S (cat.$S a b) i) (at.$S b (- i (len.$S a))))))
     :pattern ((at.$S (cat.$S a b) i)) :qid cat_at.$S)))
(assert (forall ((a $S) (b $S) (c $S)) (! (= (cat.$S (cat.$S a b) c) (cat.$S a (cat.$S b c))) :pattern ((cat.$S (cat.$S a b) c)) :qid cat_assoc.$S)))
(assert (forall ((a $S)) (! (= (cat.$S empty.$S a) a) :pattern ((cat.$S empty.$S a)) :qid cat_empty_l.$S)))
(assert (forall ((a $S)) (! (= (cat.$S a empty.$S) a) :pattern ((cat.$S a empty.$S)) :qid cat_empty_r.$S)))
(assert (forall ((s $S) (n Int)) (! (=> (and (<= 0 n) (<= n (len.$S s))) (= (len.$S (take.$S s n)) n)) :pattern ((take.$S s n)) :qid take_len.$S)))
(assert (forall ((s $S) (n Int) (i Int)) (! (=> (and (<= 0 i) (< i n) (<= n (len.$S s))) (= (at.$S (take.$S s n) i) (at.$S s i)))
     :pattern ((at.$S (take.$S s n) i)) :pattern ((take.$S s n) (at.$S s i)) :qid take_at.$S)))
(assert (forall ((s $S) (n Int)) (! (=> (and (<= 0 n) (<= n (len.$S s))) (= (len.$S (drop.$S s n)) (- (len.$S s) n))) :pattern ((drop.$S s n)) :qid drop_len.$S)))
(assert (forall ((s $S) (n Int) (i Int)) (! (=> (and (<= 0 n) (<= 0 i) (< i (- (len.$S s) n))) (= (at.$S (drop.$S s n) i) (at.$S s (+ i n))))
     :pattern ((at.$S (drop.$S s n) i)) :qid drop_at.$S)))
(assert (forall ((s $S) (n Int) (k Int)) (! (=> (and (<= 0 n) (<= n k) (< k (len.$S s))) (= (at.$S (drop.$S s n) (- k n)) (at.$S s k)))
     :pattern ((drop.$S s n) (at.$S s k)) :qid drop_at2.$S)))
(assert (forall ((s $S)) (! (= (take.$S s 0) empty.$S) :pattern ((take.$S s 0)) :qid take0.$S)))
(assert (forall ((s $S)) (! (=> (>= (len.$S s) 1) (= (take.$S s 1) (unit.$S (at.$S s 0)))) :pattern ((take.$S s 1)) :qid take1.$S)))
(assert (forall ((s $S)) (! (= (drop.$S s 0) s) :pattern ((drop.$S s 0)) :qid drop0.$S)))
(assert (forall ((s $S) (n Int)) (! (=> (= n (len.$S s)) (and (= (take.$S s n) s) (= (drop.$S s n) empty.$S))) :pattern ((take.$S s n)) :pattern ((drop.$S s n)) :qid takedrop_all.$S)))
(assert (forall ((a $S) (b $S) (n Int)) (! (=> (= n (len.$S a)) (= (take.$S (cat.$S a b) n) a)) :pattern ((take.$S (cat.$S a b) n)) :qid take_cat.$S)))
(assert (forall ((a $S) (b $S) (n Int)) (! (=> (= n (len.$S a)) (= (drop.$S (cat.$S a b) n) b)) :pattern ((drop.$S (cat.$S a b) n)) :qid drop_cat.$S)))
(assert (forall ((a $S) (b $S) (n Int)) (! (=> (and (<= 0 n) (<= n (len.$S a))) (= (drop.$S (cat.$S a b) n) (cat.$S (drop.$S a n) b))) :pattern ((drop.$S (cat.$S a b) n)) :qid drop_cat2.$S)))
(assert (forall ((s $S) (n Int)) (! (=> (and (<= 0 n) (<= n (len.$S s))) (= (cat.$S (take.$S s n) (drop.$S s n)) s)) :pattern ((take.$S s n) (drop.$S s n)) :qid take_drop_cat.$S)))
(assert (forall ((s $S) (n Int)) (! (=> (and (<= 0 n) (< n (len.$S s))) (= (take.$S s (+ n 1)) (cat.$S (take.$S s n) (unit.$S (at.$S s n))))) :pattern ((take.$S s (+ n 1))) :qid take_succ.$S)))
(assert (forall ((a $S) (b $S)) (! (= (eq.$S a b) (and (= (len.$S a) (len.$S b)) (forall ((i Int)) (! (=> (and (<= 0 i) (< i (len.$S a))) (= (at.$S a i) (at.$S b i))) :pattern ((at.$S a i)) :pattern ((at.$S b i)) :qid eq_inner.$S))))
     :pattern ((eq.$S a b)) :qid eq_def.$S)))
(assert (forall ((a $S) (b $S)) (! (=> (eq.$S a b) (= a b)) :pattern ((eq.$S a b)) :qid eq_ext.$S)))
(assert (forall ((s $S) (e $E)) (! (=> (contains.$S s e) (and (<= 0 (idx.$S s e)) (< (idx.$S s e) (len.$S s)) (= (at.$S s (idx.$S s e)) e))) :pattern ((contains.$S s e)) :qid contains_idx.$S)))
(assert (forall ((s $S) (i Int) (e $E)) (! (=> (and (<= 0 i) (< i (len.$S s))) (contains.$S s (at.$S s i))) :pattern ((contains.$S s e) (at.$S s i)) :qid at_contains.$S)))
(assert (forall ((a $S) (b $S) (e $E)) (! (= (contains.$S (cat.$S a b) e) (or (contains.$S a e) (contains.$S b e))) :pattern ((contains.$S (cat.$S a b) e)) :qid contains_cat.$S)))
(assert (forall ((x $E) (e $E)) (! (= (contains.$S (unit.$S x) e) (= x e)) :pattern ((contains.$S (unit.$S x) e)) :qid contains_unit.$S)))
(assert (forall ((e $E)) (! (not (contains.$S empty.$S e)) :pattern ((contains.$S empty.$S e)) :qid contains_empty.$S)))
(assert (forall ((s $S) (n Int) (e $E)) (! (=> (and (<= 0 n) (<= n (len.$S s)) (contains.$S (take.$S s n) e)) (contains.$S s e)) :pattern ((contains.$S (take.$S s n) e)) :qid contains_take.$S)))
`)
}

// mapPrelude axiomatises total maps M: K -> V with sel/upd (McCarthy), E-matching only.
func mapPrelude(M, K, V Sort) string {
	r := strings.NewReplacer("$M", string(M), "$K", string(K), "$V", string(V))
	if V == SBool {
		// no Bool-sorted pattern variables: z3 loops on them
		return r.Replace(`
(declare-sort $M 0)
(declare-fun sel.$M ($M $K) Bool)
(declare-fun add.$M ($M $K) $M)
(declare-fun del.$M ($M $K) $M)
(assert (forall ((h $M) (k $K)) (! (sel.$M (add.$M h k) k) :pattern ((add.$M h k)) :qid add_same.$M)))
(assert (forall ((h $M) (k $K)) (! (not (sel.$M (del.$M h k) k)) :pattern ((del.$M h k)) :qid del_same.$M)))
(assert (forall ((h $M) (k $K) (k2 $K)) (! (or (= k k2) (= (sel.$M (add.$M h k) k2) (sel.$M h k2))) :pattern ((sel.$M (add.$M h k) k2)) :qid add_other.$M)))
(assert (forall ((h $M) (k $K) (k2 $K)) (! (or (= k k2) (= (sel.$M (del.$M h k) k2) (sel.$M h k2))) :pattern ((sel.$M (del.$M h k) k2)) :qid del_other.$M)))
`)
	}
	return r.Replace(`
(declare-sort $M 0)
(declare-fun sel.$M ($M $K) $V)
(declare-fun upd.$M ($M $K $V) $M)
(assert (forall ((h $M) (k $K) (v $V)) (! (= (sel.$M (upd.$M h k v) k) v) :pattern ((upd.$M h k v)) :qid upd_same.$M)))
(assert (forall ((h $M) (k $K) (v $V) (k2 $K)) (! (or (= k k2) (= (sel.$M (upd.$M h k v) k2) (sel.$M h k2))) :pattern ((sel.$M (upd.$M h k v) k2)) :qid upd_other.$M)))
`)
}

const basePrelude = `
(set-option :auto_config false)
(set-option :smt.mbqi false)
(push 1)
(declare-sort Ref 0)
(declare-sort Type 0)
(declare-fun null () Ref)
(declare-fun typeOf (Ref) Type)
(declare-datatypes ((Fuel 0)) (((ZF) (SF (predF Fuel)))))
`

const basePreludeCVC5 = `
(set-logic ALL)
(declare-sort Ref 0)
(declare-sort Type 0)
(declare-fun null () Ref)
(declare-fun typeOf (Ref) Type)
(declare-datatypes ((Fuel 0)) (((ZF) (SF (predF Fuel)))))
`

func fullPrelude(cvc5 bool) string {
	var sb strings.Builder
	if cvc5 {
		sb.WriteString(basePreludeCVC5)
	} else {
		sb.WriteString(basePrelude)
	}
	// strings are sequences of bytes: unit.Str is specified for byte values only, and every element is a byte
	strPre := seqPrelude(SStr, SInt)
	strPre = strings.Replace(strPre, "(assert (forall ((e Int)) (! (and (= (len.Str (unit.Str e)) 1) (= (at.Str (unit.Str e) 0) e)) :pattern ((unit.Str e)) :qid unit.Str)))",
		"(assert (forall ((e Int)) (! (and (= (len.Str (unit.Str e)) 1) (=> (and (<= 0 e) (< e 256)) (= (at.Str (unit.Str e) 0) e))) :pattern ((unit.Str e)) :qid unit.Str)))\n(assert (forall ((s Str) (i Int)) (! (and (<= 0 (at.Str s i)) (< (at.Str s i) 256)) :pattern ((at.Str s i)) :qid byte_range)))", 1)
	if !strings.Contains(strPre, "byte_range") {
		panic("prelude: unit.Str axiom not found")
	}
	sb.WriteString(strPre)
	sb.WriteString(seqPrelude(SSeqRef, SRef))
	sb.WriteString(seqPrelude(SSeqStr, SStr))
	for _, v := range []Sort{SInt, SBool, SRef, SStr, SSeqRef, SSeqStr} {
		sb.WriteString(mapPrelude(ArrSort(SRef, v), SRef, v))
	}
	sb.WriteString(mapPrelude(SSetStr, SStr, SBool))
	sb.WriteString(mapPrelude(ArrSort(SRef, SSetStr), SRef, SSetStr))
	sb.WriteString("(declare-fun emptyset.Str () Set.Str)\n(assert (forall ((s Str)) (! (not (sel.Set.Str emptyset.Str s)) :pattern ((sel.Set.Str emptyset.Str s)) :qid emptyset)))\n")
	return oneFormPerLine(sb.String())
}

// oneFormPerLine joins continuation lines so that every top-level form is on one line.
func oneFormPerLine(s string) string {
	var out strings.Builder
	depth := 0
	for _, ln := range strings.Split(s, "\n") {
		t := strings.TrimSpace(ln)
		if t == "" {
			continue
		}
		if strings.HasPrefix(t, ";") && depth == 0 {
			out.WriteString(t + "\n")
			continue
		}
		for _, c := range t {
			if c == '(' {
				depth++
			} else if c == ')' {
				depth--
			}
		}
		out.WriteString(t)
		if depth == 0 {
			out.WriteString("\n")
		} else {
			out.WriteString(" ")
		}
	}
	return out.String()
}

// litAxioms returns ground facts for a string literal constant.
func litAxioms(s string) string {
	var sb strings.Builder
	sym := strLitSym(s)
	fmt.Fprintf(&sb, "(declare-fun %s () Str)\n(assert (= (len.Str %s) %d))\n", sym, sym, len(s))
	for i := 0; i < len(s); i++ {
		fmt.Fprintf(&sb, "(assert (= (at.Str %s %d) %d))\n", sym, i, s[i])
	}
	// relation to cat of units so that literal merging in the generator and solver-side cat terms agree
	t := "(unit.Str " + fmt.Sprint(s[len(s)-1]) + ")"
	for i := len(s) - 2; i >= 0; i-- {
		t = fmt.Sprintf("(cat.Str (unit.Str %d) %s)", s[i], t)
	}
	fmt.Fprintf(&sb, "(assert (= %s %s))\n", sym, t)
	return sb.String()
}
