package gvc

import (
	"fmt"
	"go/ast"
	"go/token"
	"go/types"
	"strings"
)

// protoOf normalises the protocol named in "param X follows P" / "yields P".
func (w *World) protoOf(name string) string {
	if strings.HasPrefix(name, "yield.") {
		return name
	}
	if strings.HasPrefix(name, "each.") {
		// a slice of function values each of which obeys a protocol
		return "each." + w.protoOf(strings.TrimPrefix(name, "each."))
	}
	if _, ok := w.CS.ByKey["stream."+name]; ok {
		return "stream." + name
	}
	if _, ok := w.CS.ByKey["protocol."+name]; ok {
		return "protocol." + name
	}
	return "protocol." + name
}

// protoCompatible: a value obeying protocol got may be used where want is expected.
func (w *World) protoCompatible(got, want string) bool {
	if got == want {
		return true
	}
	if strings.HasPrefix(want, "each.") {
		// closed world: which function values a slice may hold is a property of the element type (e.g. gtree.Option values
		// can only come from the With* constructors, *config being unexported); it is not tracked through slices
		return true
	}
	if strings.HasPrefix(got, "stream.") && strings.HasPrefix(want, "stream.") {
		if c := w.CS.ByKey[got]; c != nil && c.Flags["refines:"+strings.TrimPrefix(want, "stream.")] {
			return true
		}
	}
	return false
}

// closureInfo returns the FuncInfo of the n-th function literal of a function.
func (w *World) closureInfo(key string) *FuncInfo {
	if fi, ok := w.Funcs[key]; ok {
		return fi
	}
	i := strings.LastIndex(key, "#")
	if i < 0 {
		return nil
	}
	parent := w.Funcs[key[:i]]
	if parent == nil {
		// closure of an instance of a generic function / method: gtree.f[jsonNode]#1
		if j := strings.Index(key[:i], "["); j >= 0 && strings.HasSuffix(key[:i], "]") {
			parent = w.Funcs[key[:j]]
		}
	}
	if parent == nil {
		return nil
	}
	var n int
	fmt.Sscan(key[i+1:], &n)
	if n < 1 || n > len(parent.LitList) {
		return nil
	}
	fi := &FuncInfo{Key: key, Obj: parent.Obj, Decl: parent.Decl, Lit: parent.LitList[n-1], Pkg: parent.Pkg, File: parent.File}
	fi.index()
	w.Funcs[key] = fi
	return fi
}

// capturedVars lists the variables of the enclosing function that a function literal uses.
func capturedVars(lit *ast.FuncLit, info *types.Info) []*types.Var {
	seen := map[*types.Var]bool{}
	var out []*types.Var
	ast.Inspect(lit.Body, func(n ast.Node) bool {
		id, ok := n.(*ast.Ident)
		if !ok {
			return true
		}
		v, ok := info.Uses[id].(*types.Var)
		if !ok || v.IsField() || seen[v] {
			return true
		}
		if v.Pkg() == nil || v.Parent() == v.Pkg().Scope() {
			return true
		}
		// declared outside the literal?
		if v.Pos() >= lit.Pos() && v.Pos() <= lit.End() {
			return true
		}
		seen[v] = true
		out = append(out, v)
		return true
	})
	return out
}

// streamCall handles calls of function values bound to a stream: yield.X, next.X, stop.
func (x *Exec) streamCall(call *ast.CallExpr, fv *Val, st *St, fr *Frame, k kval) {
	kind, name, _ := strings.Cut(fv.Proto, ".")
	pos := x.W.pos(call.Pos())
	if kind == "stop" {
		k(st, &Val{})
		return
	}
	sc := x.W.CS.ByKey["stream."+name]
	if sc == nil {
		oos("unknown stream %s", name)
	}
	sig, _ := fv.Ty.Underlying().(*types.Signature)
	switch kind {
	case "yield":
		x.evalArgs(call.Args, st, fr, func(st *St, args []*Val) {
			names := map[string]*Val{}
			for i, a := range args {
				if i < len(sc.Params) && sig != nil && i < sig.Params().Len() {
					names[sc.Params[i]] = x.coerce(st, a, sig.Params().At(i).Type())
				}
			}
			bindSubjects(sc, x.prodSubj, names)
			env := &CEnv{X: x, Names: names, St: st, Pkg: x.Fn.Pkg}
			x.wrapCfail("stream "+name, func() {
				for _, r := range sc.Requires {
					x.emit(st, oblTemplate{kind: "yield", label: r.Label, clause: r.Text, props: r.Props, pos: pos,
						name: x.Fn.Key + "/yield#" + name + "/" + r.Label}, nil, env.Formula(r.Expr))
				}
			})
			x.assertWF(st, "yield#"+name, pos)
			x.applyRecords(st, sc, env, call.Pos(), true)
			var targets []modTarget
			x.wrapCfail("modifies of stream "+name, func() { targets = x.modTargets(sc, env) })
			x.havocAlloc(st)
			for _, t := range targets {
				x.havocTarget(st, t, call.Pos())
			}
			x.assumeWF(st)
			st.yielded = true
			st.note("yield to the consumer of stream %s at %s", name, pos)
			ret := x.freshVal(st, "yield.ret", types.Typ[types.Bool])
			if sc.Stops != "" {
				x.wrapCfail("stops of stream "+name, func() {
					x.recordVars(sc)
					g := x.W.GhostVars[sc.Stops]
					x.checkWrite(st, g.Key, Null, call.Pos())
					st.heap[g.Key] = Not(ret.T)
				})
			}
			k(st, ret)
		})
	case "next":
		x.assertWF(st, "next#"+name, pos)
		env := &CEnv{X: x, Names: map[string]*Val{}, St: st, Pkg: x.Fn.Pkg}
		var targets []modTarget
		x.wrapCfail("resumes of stream "+name, func() {
			for _, m := range sc.Resumes {
				targets = append(targets, x.modTarget(m, env)...)
			}
		})
		x.havocAlloc(st)
		for _, t := range targets {
			x.havocTarget(st, t, call.Pos())
		}
		// the recorded ghost variables are written by the producer, but only as the records clauses say
		x.wrapCfail("records of stream "+name, func() {
			for _, g := range x.recordVars(sc) {
				x.checkWrite(st, g.Key, Null, call.Pos())
			}
		})
		// results: the yielded values and ok
		var rvals []*Val
		names := map[string]*Val{}
		if sig != nil {
			for i := 0; i < sig.Results().Len(); i++ {
				rv := x.freshVal(st, "next.ret", sig.Results().At(i).Type())
				if rv.T != nil && rv.T.Sort == SRef {
					x.assume(st, Or(Eq(rv.T, Null), Select(st.alloc(), rv.T)))
				}
				rvals = append(rvals, rv)
				if i < len(sc.Params) {
					names[sc.Params[i]] = rv
				}
			}
		}
		x.assumeWF(st)
		if len(rvals) > 0 {
			ok := rvals[len(rvals)-1]
			bindSubjects(sc, fv.Subj, names)
			penv := &CEnv{X: x, Names: names, St: st, Pkg: x.Fn.Pkg}
			x.wrapCfail("stream "+name, func() {
				for _, r := range sc.Requires {
					x.assume(st, Implies(ok.T, penv.HypFormula(r.Expr)))
				}
			})
			if len(sc.Records) > 0 {
				// two continuations: a value arrived (the records clauses were applied), or the producer finished
				// (nothing recorded; its finish condition holds: recording streams check it at every producer exit)
				fin := st.clone()
				x.assume(fin, Not(ok.T))
				if !fin.dead {
					fenv := &CEnv{X: x, Names: names, St: fin, Pkg: x.Fn.Pkg}
					x.wrapCfail("finish condition of stream "+name, func() {
						for _, e := range sc.Ensures {
							x.assume(fin, fenv.HypFormula(e.Expr))
						}
					})
					fin.note("the producer of stream %s has finished (next at %s)", name, pos)
					k(fin, &Val{Tuple: rvals})
				}
				x.assume(st, ok.T)
				if st.dead {
					return
				}
				x.applyRecords(st, sc, penv, call.Pos(), false)
			}
		}
		st.note("resume the producer of stream %s at %s", name, pos)
		k(st, &Val{Tuple: rvals})
	default:
		oos("call of a stream value at %s", pos)
	}
}

// pull2 models iter.Pull2(seq): next and stop bound to the stream of seq.
func (x *Exec) pull2(call *ast.CallExpr, args []*Val, st *St, fr *Frame, k kval) {
	if len(args) != 1 || !strings.HasPrefix(args[0].Proto, "stream.") {
		oos("iter.Pull2 of a value without a stream protocol at %s", x.W.pos(call.Pos()))
	}
	name := strings.TrimPrefix(args[0].Proto, "stream.")
	tup, ok := fr.typeOf(call).(*types.Tuple)
	if !ok || tup.Len() != 2 {
		oos("unexpected type of iter.Pull2 at %s", x.W.pos(call.Pos()))
	}
	if sc := x.W.CS.ByKey["stream."+name]; sc != nil {
		x.resetRecords(st, sc, true, call.Pos())
		x.knownSubjects(st, sc, args[0])
	}
	k(st, &Val{Tuple: []*Val{
		{T: x.fresh("next", SRef), Ty: tup.At(0).Type(), Proto: "next." + name, Subj: args[0].Subj},
		{T: x.fresh("stop", SRef), Ty: tup.At(1).Type(), Proto: "stop."},
	}})
}

// rangeStream: for v := range seq where seq obeys a stream.
// The producer either finishes before yielding anything (its finish condition may then be assumed), or a value arrives;
// after a completed iteration the loop is cut at its invariants as usual.
func (x *Exec) rangeStream(n *ast.RangeStmt, rv *Val, st *St, fr *Frame, k func(*St)) {
	name := strings.TrimPrefix(rv.Proto, "stream.")
	sc := x.W.CS.ByKey["stream."+name]
	if sc == nil {
		oos("unknown stream %s", name)
	}
	c, key := x.loopContract(fr, n)
	label := fr.label
	define := n.Tok == token.DEFINE
	recording := len(sc.Records) > 0
	x.knownSubjects(st, sc, rv)
	if recording || sc.Stops != "" {
		st = st.clone()
		x.resetRecords(st, sc, true, n.Pos())
	}
	x.checkInvariants(st, fr, c, key, "init", nil, n.Pos())
	x.assertWF(st, "loop#"+key, x.W.pos(n.Pos()))
	sig, _ := rv.Ty.Underlying().(*types.Signature)
	resume := func(s *St) {
		x.wrapCfail("records of stream "+name, func() {
			for _, g := range x.recordVars(sc) {
				x.checkWrite(s, g.Key, Null, n.Pos())
			}
		})
		env := &CEnv{X: x, Names: map[string]*Val{}, St: s, Pkg: x.Fn.Pkg}
		var targets []modTarget
		x.wrapCfail("resumes of stream "+name, func() {
			for _, m := range sc.Resumes {
				targets = append(targets, x.modTarget(m, env)...)
			}
		})
		x.havocAlloc(s)
		for _, t := range targets {
			x.havocTarget(s, t, n.Pos())
		}
	}
	arrive := func(body *St, endIter func(*St)) {
		names := map[string]*Val{}
		var vals []*Val
		if sig != nil && sig.Params().Len() == 1 {
			if ysig, ok := sig.Params().At(0).Type().Underlying().(*types.Signature); ok {
				for i := 0; i < ysig.Params().Len(); i++ {
					v := x.freshVal(body, "iter.val", ysig.Params().At(i).Type())
					vals = append(vals, v)
					if i < len(sc.Params) {
						names[sc.Params[i]] = v
					}
				}
			}
		}
		bindSubjects(sc, rv.Subj, names)
		penv := &CEnv{X: x, Names: names, St: body, Pkg: x.Fn.Pkg}
		x.wrapCfail("stream "+name, func() {
			for _, r := range sc.Requires {
				x.assume(body, penv.HypFormula(r.Expr))
			}
		})
		if body.dead {
			return
		}
		x.applyRecords(body, sc, penv, n.Pos(), false)
		if leavesLoopEarly(n.Body) {
			// Leaving a range over an iterator function before it is exhausted makes the producer's yield return false;
			// a producer that yields again after that panics at run time. The stream contract must exclude it: with the
			// stop flag set (if the stream has one), no further yield may be possible, i.e. the stream's requires
			// clauses must be unsatisfiable in the state after this value was recorded.
			ex := body.clone()
			if sc.Stops != "" {
				if g, ok := x.W.GhostVars[sc.Stops]; ok {
					ex.heap[g.Key] = True
				}
			}
			names2 := map[string]*Val{}
			if sig != nil && sig.Params().Len() == 1 {
				if ysig, ok := sig.Params().At(0).Type().Underlying().(*types.Signature); ok {
					for i := 0; i < ysig.Params().Len() && i < len(sc.Params); i++ {
						names2[sc.Params[i]] = x.freshVal(ex, "iter.next", ysig.Params().At(i).Type())
					}
				}
			}
			bindSubjects(sc, rv.Subj, names2)
			env2 := &CEnv{X: x, Names: names2, St: ex, Pkg: x.Fn.Pkg}
			x.wrapCfail("stream "+name, func() {
				for _, r := range sc.Requires {
					x.assume(ex, env2.HypFormula(r.Expr))
				}
			})
			x.emit(ex, oblTemplate{kind: "range-exit", label: "exit", pos: x.W.pos(n.Pos()),
				clause: "the loop may be left before the iterator is exhausted: stream " + name + " must not allow a yield after that (its requires clauses are unsatisfiable once this value was recorded and the stop flag is set)",
				name:   x.Fn.Key + "/range#" + name + "/exit"}, nil, False)
		}
		if n.Key != nil && len(vals) > 0 {
			x.assignTo(n.Key, vals[0], body, fr, define)
		}
		if n.Value != nil && len(vals) > 1 {
			x.assignTo(n.Value, vals[1], body, fr, define)
		}
		body.note("range over stream %s: a value arrives", name)
		lfr := fr.withLoop(k, endIter, label)
		x.block(n.Body.List, body, lfr, endIter)
	}
	reached := false
	endIter := func(s *St) {
		reached = true
		x.checkInvariants(s, fr, c, key, "keep", nil, n.Pos())
		x.assertWF(s, "loop#"+key+"/keep", x.W.pos(n.Pos()))
	}
	// phase 1: the first resume, from the state at loop entry
	first := st.clone()
	resume(first)
	x.assumeWF(first)
	fin := first.clone()
	oldEnv := &CEnv{X: x, Names: x.localNames(st, fr, nil), St: st, Pkg: x.Fn.Pkg}
	finish := func(fin *St) {
		fn := x.localNames(fin, fr, nil)
		bindSubjects(sc, rv.Subj, fn)
		fenv := &CEnv{X: x, Names: fn, St: fin, Pkg: x.Fn.Pkg, Old: oldEnv}
		x.wrapCfail("finish condition of stream "+name, func() {
			for _, e := range sc.Ensures {
				x.assume(fin, fenv.HypFormula(e.Expr))
			}
		})
	}
	finish(fin)
	if !fin.dead {
		fin.note("range over stream %s: producer finished without yielding", name)
		k(fin)
	}
	arrive(first, endIter)
	// phase 2: an arbitrary later resume, cut at the loop invariants (only if an iteration can complete at all)
	if !reached {
		return
	}
	// (the invariants describe the state at the end of an iteration, before the producer is resumed)
	hv := st.clone()
	x.loopHavoc(hv, fr, []ast.Node{n.Body}, key)
	// what the stream records changes at every arrival: at an arbitrary later resume only the loop invariants speak about it
	x.wrapCfail("records of stream "+name, func() {
		for _, g := range x.recordVars(sc) {
			hv.heap[g.Key] = x.fresh(g.Key, g.Sort)
		}
	})
	x.assumeInvariants(hv, fr, c, key, nil)
	x.assumeWF(hv)
	resume(hv)
	x.assumeWF(hv)
	if hv.dead {
		return
	}
	ex := hv.clone()
	if recording {
		// recording streams check their finish condition at every producer exit
		finish(ex)
	}
	if !ex.dead {
		ex.note("range over stream %s: producer finished after some values", name)
		k(ex)
	}
	arrive(hv, endIter)
}

// bindSubjects makes the subject names of a stream visible in a clause environment.
func bindSubjects(sc *Contract, subj []*Val, names map[string]*Val) {
	for i, s := range sc.Subjects {
		if i < len(subj) && subj[i] != nil {
			names[s] = subj[i]
		}
	}
}

// knownSubjects completes the subjects of a stream value: a subject the consumer knows nothing about (the value came in
// through a parameter whose contract does not name its subjects) is an unknown but fixed value of the declared type.
func (x *Exec) knownSubjects(st *St, sc *Contract, v *Val) []*Val {
	if len(sc.Subjects) == 0 {
		return v.Subj
	}
	for len(v.Subj) < len(sc.Subjects) {
		v.Subj = append(v.Subj, nil)
	}
	for i, nm := range sc.Subjects {
		if v.Subj[i] == nil {
			i, nm := i, nm
			x.wrapCfail("subjects of stream "+sc.Key, func() { v.Subj[i] = x.freshSubject(st, sc, i, nm) })
		}
	}
	return v.Subj
}

// recordInit is the value a recorded ghost variable has when a producer starts.
func recordInit(s Sort) *Term {
	switch {
	case s == SBool:
		return False
	case s == SInt:
		return IntLit(0)
	case s == SRef:
		return Null
	}
	if s == SStr || s == SSeqRef || s == SSeqStr {
		return SeqEmpty(s)
	}
	return nil
}

func (x *Exec) recordVars(sc *Contract) []*FieldInfo {
	var out []*FieldInfo
	for _, r := range sc.Records {
		g, ok := x.W.GhostVars[r.Var]
		if !ok {
			cfail("records: unknown ghost variable %s", r.Var)
		}
		out = append(out, g)
	}
	if sc.Stops != "" {
		g, ok := x.W.GhostVars[sc.Stops]
		if !ok || g.Sort != SBool {
			cfail("stops: unknown ghost Bool %s", sc.Stops)
		}
		out = append(out, g)
	}
	for _, t := range sc.Tracks {
		g, ok := x.W.GhostVars[t]
		if !ok {
			cfail("tracks: unknown ghost variable %s", t)
		}
		out = append(out, g)
	}
	return out
}

// resetRecords: a producer of stream sc starts: its recorded ghost variables take their initial values.
// write=true is the consumer side (iter.Pull2 / range start: a ghost assignment, checked against the frame);
// write=false is the producer side (closure entry: an assumption).
func (x *Exec) resetRecords(st *St, sc *Contract, write bool, p token.Pos) {
	x.wrapCfail("records of stream "+sc.Key, func() {
		for _, g := range x.recordVars(sc) {
			init := recordInit(g.Sort)
			if init == nil {
				cfail("records: ghost variable %s has no initial value", g.Key)
			}
			if write {
				x.checkWrite(st, g.Key, Null, p)
				st.heap[g.Key] = init
			} else {
				x.assume(st, Eq(st.field(g), init))
			}
		}
	})
}

// applyRecords performs "records G := e" for every clause (right-hand sides first), in the environment env.
func (x *Exec) applyRecords(st *St, sc *Contract, env *CEnv, p token.Pos, check bool) {
	if len(sc.Records) == 0 {
		return
	}
	x.wrapCfail("records of stream "+sc.Key, func() {
		vals := make([]*Term, len(sc.Records))
		for i, r := range sc.Records {
			vals[i] = env.tr(r.Expr).T
		}
		for i, r := range sc.Records {
			g := x.W.GhostVars[r.Var]
			if g == nil {
				cfail("records: unknown ghost variable %s", r.Var)
			}
			if vals[i] == nil || vals[i].Sort != g.Sort {
				cfail("records %s: value has the wrong sort", r.Var)
			}
			if check {
				x.checkWrite(st, g.Key, Null, p)
			}
			nw := x.fresh(g.Key, g.Sort)
			x.assume(st, Eq(nw, vals[i]))
			st.heap[g.Key] = nw
		}
	})
}

// leavesLoopEarly: the body of a range statement contains a statement that leaves the loop before the range is
// exhausted (return, goto, a labelled break or continue, or a break that is not nested in an inner loop / switch / select).
func leavesLoopEarly(body *ast.BlockStmt) bool {
	found := false
	var walk func(n ast.Node, inner bool)
	walk = func(n ast.Node, inner bool) {
		ast.Inspect(n, func(m ast.Node) bool {
			if found || m == nil {
				return false
			}
			switch s := m.(type) {
			case *ast.FuncLit:
				return false
			case *ast.ReturnStmt:
				found = true
			case *ast.BranchStmt:
				switch {
				case s.Tok == token.GOTO, s.Label != nil && (s.Tok == token.BREAK || s.Tok == token.CONTINUE):
					found = true
				case s.Tok == token.BREAK && !inner:
					found = true
				}
			case *ast.ForStmt:
				walk(s.Body, true)
				return false
			case *ast.RangeStmt:
				if m != ast.Node(body) {
					walk(s.Body, true)
					return false
				}
			case *ast.SwitchStmt:
				walk(s.Body, true)
				return false
			case *ast.TypeSwitchStmt:
				walk(s.Body, true)
				return false
			case *ast.SelectStmt:
				walk(s.Body, true)
				return false
			}
			return true
		})
	}
	walk(body, false)
	return found
}
