#!/bin/bash
# muttest.sh <file> <python-replace-from> <python-replace-to> [funcs]  : apply a textual mutation on a scratch copy and run gvc
set -e
rm -rf /tmp/mut && rsync -a --exclude .git /repo/ /tmp/mut/
python3 - "$1" "$2" "$3" <<'PY'
import sys
p='/tmp/mut/'+sys.argv[1]
s=open(p).read()
assert sys.argv[2] in s, "pattern not found"
s=s.replace(sys.argv[2],sys.argv[3],1)
open(p,'w').write(s)
PY
(cd /tmp/mut && GOFLAGS=-mod=mod GOPROXY=off go build . ./markdown ./cmd/gtree ) || { echo "MUTANT DOES NOT COMPILE"; exit 2; }
if [ -n "$4" ]; then F="-funcs $4"; fi
/verif/bin/gvc -repo /tmp/mut -timeout 3 $F 2>&1 | grep "^FAIL\|failures\|OUT-OF" | awk '{print $1,$2,$4}' | sort | uniq -c
