#!/usr/bin/env python3
# ddmin.py file.smt2 [solver] : minimise the set of quantified assertions that still makes the solver time out
import subprocess,sys
f=sys.argv[1]; solver=sys.argv[2] if len(sys.argv)>2 else 'z3-new'
lines=open(f).read().split('\n')
cand=[i for i,l in enumerate(lines) if l.startswith('(assert (forall')]
def run(keep):
    ls=[l for j,l in enumerate(lines) if j not in cand or j in keep]
    open('/tmp/ddmin_t.smt2','w').write('\n'.join(ls))
    try:
        r=subprocess.run([solver,'-T:3','/tmp/ddmin_t.smt2'],capture_output=True,text=True,timeout=8).stdout.split('\n')[0]
    except subprocess.TimeoutExpired:
        r='timeout'
    return r
print('base:',run(set(cand)))
lst=sorted(cand); n=2
while len(lst)>=1:
    chunk=max(1,len(lst)//n); removed=False
    for s in range(0,len(lst),chunk):
        trial=lst[:s]+lst[s+chunk:]
        if run(set(trial))=='timeout':
            lst=trial; n=max(n-1,2); removed=True; break
    if not removed:
        if chunk==1: break
        n=min(n*2,len(lst))
for i in lst: print(lines[i][:500]); print()
