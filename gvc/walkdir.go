package gvc

import (
	"fmt"
	"go/ast"
	"go/types"
)

// walkDir models io/fs.WalkDir(fsys, root, fn) for a callback given as a function literal. The walked path is the
// directory of fsys itself for root "." and fsysDir(fsys) joined with root otherwise:
//   - the walked path cannot be stat'ed (missing, or for root "." not readable as a directory): fn is called once, with
//     root as its path and some non-nil error, WalkDir returns fn's result;
//   - otherwise fn is called for the entries walkEntries(walked) (relative to the walked path, the path itself first; a
//     regular file has just that one entry), in order, with a nil error and a path p such that joining p onto the
//     directory of fsys gives the entry; a non-nil result ends the walk and is returned (fs.SkipDir is not modelled: the
//     callback is required to return nil on entries).
//
// The entry loop is cut at the invariants of the loop contract "<function>#walk".
// TRUSTED: this is the assumed contract of fs.WalkDir and os.DirFS, in executable-model form.
func (x *Exec) walkDir(call *ast.CallExpr, args []*Val, st *St, fr *Frame, k kval) {
	if len(args) != 3 || args[2].Fn == nil || args[2].Fn.Lit == nil {
		oos("fs.WalkDir with a callback that is not a function literal at %s", x.W.pos(call.Pos()))
	}
	w := x.W
	fsys, fn := args[0], args[2].Fn
	w.BG.Funs["logic.fsysDir"] = FunSig{Name: "logic.fsysDir", Args: []Sort{SRef}, Res: SStr}
	w.BG.Funs["logic.walkEntries"] = FunSig{Name: "logic.walkEntries", Args: []Sort{SStr}, Res: SSeqStr}
	fsDir := App("logic.fsysDir", SStr, fsys.T)
	dir := fsDir
	rootIsDot := false
	if lit, ok := ast.Unparen(call.Args[1]).(*ast.BasicLit); ok && lit.Value == `"."` {
		rootIsDot = true
	}
	if !rootIsDot {
		if args[1] == nil || args[1].T == nil || args[1].T.Sort != SStr {
			oos("fs.WalkDir with an unsupported root argument at %s", x.W.pos(call.Pos()))
		}
		// the walked path: the root joined onto the directory of the file system (fpJoin2 of /repo/verif_contracts.go)
		sf, ok := w.Specs["gtree.fpJoin2"]
		if !ok {
			oos("fs.WalkDir with a root other than \".\" needs the spec function fpJoin2")
		}
		dir = App(sf.Sym, SStr, fsDir, args[1].T)
	}
	join := func(a, b *Term) *Term {
		if sf, ok := w.Specs["gtree.fpJoin2"]; ok {
			return App(sf.Sym, SStr, a, b)
		}
		return nil
	}
	entries := App("logic.walkEntries", SSeqStr, dir)
	// "cannot be walked": for root "." the directory of fsys must be readable as a directory (a missing path and a
	// regular file both fail: fsNotDir); for any other root the path must merely exist (a regular file is walked as its
	// single entry). fsExistsAt is the os.Stat oracle of /repo/verif_contracts.go; a path that does not exist is no directory.
	w.BG.Funs["logic.fsNotDir"] = FunSig{Name: "logic.fsNotDir", Args: []Sort{SStr}, Res: SBool}
	var exists *Term
	if sf, ok := w.Specs["gtree.fsExistsAt"]; ok {
		exists = App(sf.Sym, SBool, dir)
	}
	missing := App("logic.fsNotDir", SBool, dir)
	if exists != nil {
		x.assume(st, Implies(Not(exists), missing))
		if !rootIsDot {
			missing = Not(exists)
		}
	}
	sig := fr.info.TypeOf(fn.Lit).(*types.Signature)
	errTy := sig.Params().At(2).Type()
	strTy := types.Typ[types.String]
	callFn := func(s *St, path *Term, errv *Term, k2 kval) {
		// fs.WalkDirFunc: d is nil when the root could not be read, and a valid entry otherwise
		d := &Val{T: Null, Ty: sig.Params().At(1).Type()}
		if errv == Null {
			d = x.freshVal(s, "direntry", sig.Params().At(1).Type())
			x.assume(s, Neq(d.T, Null))
		}
		x.inlineLit(fn, []*Val{{T: path, Ty: strTy}, d, {T: errv, Ty: errTy}}, call, s, fr, k2)
	}
	// (1) the root cannot be read
	s1 := st.clone()
	x.assume(s1, missing)
	if !s1.dead {
		e := x.fresh("walk.err", SRef)
		x.assume(s1, Neq(e, Null))
		// the error comes from the operating system: it is not a value of an error type declared in the packages under
		// verification (verifyError, inputFormatError, ...)
		errIface, _ := types.Universe.Lookup("error").Type().Underlying().(*types.Interface)
		for _, p := range w.Main {
			sc := p.Types.Scope()
			for _, nm := range sc.Names() {
				tn, ok := sc.Lookup(nm).(*types.TypeName)
				if !ok || tn.IsAlias() {
					continue
				}
				n, ok := tn.Type().(*types.Named)
				if !ok || n.TypeParams().Len() > 0 {
					continue
				}
				if _, isStruct := n.Underlying().(*types.Struct); !isStruct {
					continue
				}
				if errIface != nil && (types.Implements(n, errIface) || types.Implements(types.NewPointer(n), errIface)) {
					x.assume(s1, Neq(mk("typeOf", SType, e), w.TypeConst(n)))
				}
			}
		}
		// the kind of error is left open (ErrNotExist for a missing directory, ENOTDIR for a regular file, ...)
		s1.note("fs.WalkDir: the directory is missing; the callback sees the error")
		rootPath := StrLit(".")
		if !rootIsDot {
			rootPath = args[1].T
		}
		callFn(s1, rootPath, e, func(s *St, r *Val) { k(s, r) })
	}
	// (2) the directory exists: one callback per entry
	s2 := st.clone()
	x.assume(s2, Not(missing))
	if s2.dead {
		return
	}
	key := fr.fi.Key + "#walk"
	c := w.CS.ByKey[key]
	if c == nil {
		x.Notes = append(x.Notes, "loop "+key+" (fs.WalkDir entries) has no invariant")
	}
	intTy := types.Typ[types.Int]
	extra := func(i *Term) map[string]*Val {
		return map[string]*Val{"$i": {T: i, Ty: intTy}, "$entries": {T: entries, Ty: types.NewSlice(strTy)}, "$dir": {T: dir, Ty: strTy}}
	}
	x.checkInvariants(s2, fr, c, key, "init", extra(IntLit(0)), call.Pos())
	x.assertWF(s2, "loop#"+key, x.W.pos(call.Pos()))
	hv := s2.clone()
	x.loopHavoc(hv, fn.Owner, []ast.Node{fn.Lit.Body}, key)
	// exit: all entries visited
	ex := hv.clone()
	x.assumeInvariants(ex, fr, c, key, extra(SeqLen(entries)))
	x.assumeWF(ex)
	if !ex.dead {
		ex.note("fs.WalkDir: all %s entries visited", "walkEntries")
		k(ex, &Val{T: Null, Ty: errTy})
	}
	// an arbitrary entry
	i := x.fresh("$i", SInt)
	body := hv
	x.assume(body, Cmp("<=", IntLit(0), i))
	x.assume(body, Cmp("<", i, SeqLen(entries)))
	x.assumeInvariants(body, fr, c, key, extra(i))
	x.assumeWF(body)
	if body.dead {
		return
	}
	body.note("fs.WalkDir: callback for an arbitrary entry %s", i.Op)
	entryPath := SeqAt(entries, i)
	if !rootIsDot {
		// the path handed to the callback is relative to the file system: joined onto its directory it is the entry
		p := x.fresh("walk.path", SStr)
		if j1, j2 := join(fsDir, p), join(dir, SeqAt(entries, i)); j1 != nil && j2 != nil {
			x.assume(body, Eq(j1, j2))
		}
		entryPath = p
	}
	callFn(body, entryPath, Null, func(s *St, r *Val) {
		pos := x.W.pos(call.Pos())
		x.emit(s, oblTemplate{kind: "walk", label: "continues", pos: pos, clause: "the WalkDir callback returns nil for an existing entry (it neither aborts the walk nor skips a directory)",
			name: fr.fi.Key + "/walk#continues"}, nil, Eq(r.T, Null))
		x.assume(s, Eq(r.T, Null))
		x.checkInvariants(s, fr, c, key, "keep", extra(Arith("+", i, IntLit(1))), call.Pos())
		x.assertWF(s, "loop#"+key+"/keep", pos)
	})
}

// pkgVar finds a package-level variable of a loaded package.
func (w *World) pkgVar(path, name string) *types.Var {
	if p, ok := w.Pkgs[path]; ok && p.Types != nil {
		if v, ok := p.Types.Scope().Lookup(name).(*types.Var); ok {
			return v
		}
	}
	return nil
}

var _ = fmt.Sprint
